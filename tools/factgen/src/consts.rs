// Decoding of rustc's own constant-evaluation results (const items, static
// initialisers) into JSON, driven by type layout. Nothing is executed here
// beyond what rustc's CTFE already computed for compilation.
use crate::json::J;
use crate::Cx;
use rustc_abi::{Size, TagEncoding, Variants};
use rustc_hir::def_id::DefId;
use rustc_middle::mir::interpret::{Allocation, GlobalAlloc};
use rustc_middle::mir::ConstValue;
use rustc_middle::ty::layout::LayoutCx;
use rustc_middle::ty::{self, Ty, TypingEnv};

const MAX_DEPTH: usize = 6;

pub fn dump_const<'tcx>(cx: &Cx<'tcx>, did: DefId) -> Option<J> {
    let tcx = cx.tcx;
    let mut o = J::obj();
    o.put("path", J::s(&cx.name(did)));
    o.put("kind", J::s("const"));
    let generics = tcx.generics_of(did);
    let ty = tcx.type_of(did).instantiate_identity().skip_norm_wip();
    o.put("ty", J::s(&cx.ty(ty)));
    if generics.count() > 0 || generics.parent_count > 0 {
        // may depend on generic parameters: try anyway, ignore errors
    }
    let tenv = TypingEnv::post_analysis(tcx, did);
    if let Some(item) = tcx.opt_associated_item(did) {
        if !item.defaultness(tcx).has_value() {
            return Some(o);
        }
    }
    if let Ok(v) = tcx.const_eval_poly(did) {
        if let Some(d) = decode_const_value(cx, v, ty, tenv) {
            o.put("val", d);
        }
    }
    Some(o)
}

pub fn dump_static<'tcx>(cx: &Cx<'tcx>, did: DefId) -> Option<J> {
    let tcx = cx.tcx;
    let mut o = J::obj();
    o.put("path", J::s(&cx.name(did)));
    o.put("id", J::s(&cx.raw_id(did)));
    o.put("kind", J::s("static"));
    o.put("mutable", J::Bool(tcx.is_mutable_static(did)));
    o.put("tls", J::Bool(tcx.is_thread_local_static(did)));
    let ty = tcx.type_of(did).instantiate_identity().skip_norm_wip();
    o.put("ty", J::s(&cx.ty(ty)));
    let sm = tcx.sess.source_map();
    let sp = tcx.def_span(did);
    let lo = sm.lookup_char_pos(sp.lo());
    o.put("line", J::i(lo.line as i128));
    if sp.from_expansion() {
        let cs = sp.source_callsite();
        let clo = sm.lookup_char_pos(cs.lo());
        o.put("cs_line", J::i(clo.line as i128));
    }
    let parent = tcx.parent(did);
    o.put("parent", J::s(&cx.name(parent)));
    if tcx.is_thread_local_static(did) {
        return Some(o);
    }
    let tenv = TypingEnv::fully_monomorphized();
    if let Ok(alloc) = tcx.eval_static_initializer(did) {
        let d = decode(cx, alloc.inner(), 0, ty, tenv, 0);
        o.put("val", d);
    }
    Some(o)
}

pub fn decode_const_value<'tcx>(
    cx: &Cx<'tcx>,
    v: ConstValue,
    ty: Ty<'tcx>,
    tenv: TypingEnv<'tcx>,
) -> Option<J> {
    let tcx = cx.tcx;
    match v {
        ConstValue::Scalar(rustc_middle::mir::interpret::Scalar::Int(si)) => {
            let size = si.size();
            let mut o = J::obj();
            let raw = si.to_uint(size);
            if ty.is_signed() {
                o.put("int", J::i(si.to_int(size)));
            } else {
                o.put("int", J::i(raw as i128));
            }
            if let ty::Adt(adt, _) = ty.kind() {
                o.put("adt", J::s(&cx.name(adt.did())));
                if adt.is_enum() {
                    // direct-tag fieldless enums: name the variant
                    for (vidx, v) in adt.variants().iter_enumerated() {
                        if adt.discriminant_for_variant(tcx, vidx).val == raw && v.fields.is_empty() {
                            o.put("variant", J::s(v.name.as_str()));
                        }
                    }
                }
            }
            Some(o)
        }
        ConstValue::Scalar(rustc_middle::mir::interpret::Scalar::Ptr(ptr, _)) => {
            let (prov, off) = ptr.prov_and_relative_offset();
            let mut o = J::obj();
            match tcx.global_alloc(prov.alloc_id()) {
                GlobalAlloc::Static(s) => {
                    o.put("static", J::s(&cx.name(s)));
                    o.put("static_id", J::s(&cx.raw_id(s)));
                }
                GlobalAlloc::Function { instance } => o.put("fnptr", J::s(&cx.name(instance.def_id()))),
                GlobalAlloc::Memory(mem) => {
                    if let ty::Ref(_, inner, _) = ty.kind() {
                        if inner.is_sized(tcx, tenv) {
                            o.put("ref", decode(cx, mem.inner(), off.bytes(), *inner, tenv, 1));
                        }
                    }
                }
                _ => {}
            }
            Some(o)
        }
        ConstValue::ZeroSized => {
            let mut o = J::obj();
            o.put("zst", J::Bool(true));
            Some(o)
        }
        ConstValue::Slice { .. } => {
            let mut o = J::obj();
            if let Some(bytes) = v.try_get_slice_bytes_for_diagnostics(tcx) {
                if let Ok(s) = std::str::from_utf8(bytes) {
                    o.put("str", J::s(s));
                }
            }
            Some(o)
        }
        ConstValue::Indirect { alloc_id, offset } => {
            let mem = match tcx.global_alloc(alloc_id) {
                GlobalAlloc::Memory(m) => m,
                _ => return None,
            };
            Some(decode(cx, mem.inner(), offset.bytes(), ty, tenv, 0))
        }
    }
}

fn read_uint(alloc: &Allocation, off: u64, size: u64) -> Option<u128> {
    let off = off as usize;
    let size = size as usize;
    if size == 0 || size > 16 || off + size > alloc.len() {
        return None;
    }
    let bytes = alloc.inspect_with_uninit_and_ptr_outside_interpreter(off..off + size);
    let mut v: u128 = 0;
    for (i, b) in bytes.iter().enumerate() {
        v |= (*b as u128) << (8 * i);
    }
    Some(v)
}

fn has_prov(alloc: &Allocation, off: u64) -> bool {
    alloc.provenance().ptrs().get(&Size::from_bytes(off)).is_some()
}

fn opaque(why: &str) -> J {
    let mut o = J::obj();
    o.put("opaque", J::s(why));
    o
}

fn follow<'tcx>(cx: &Cx<'tcx>, alloc: &Allocation, off: u64) -> Option<(GlobalAlloc<'tcx>, u64)> {
    let prov = alloc.provenance().ptrs().get(&Size::from_bytes(off))?;
    let rel = read_uint(alloc, off, 8)? as u64;
    Some((cx.tcx.global_alloc(prov.alloc_id()), rel))
}

pub fn decode<'tcx>(
    cx: &Cx<'tcx>,
    alloc: &Allocation,
    off: u64,
    ty: Ty<'tcx>,
    tenv: TypingEnv<'tcx>,
    depth: usize,
) -> J {
    let tcx = cx.tcx;
    if depth > MAX_DEPTH {
        return opaque("depth");
    }
    let layout = match tcx.layout_of(tenv.as_query_input(ty)) {
        Ok(l) => l,
        Err(_) => return opaque("layout"),
    };
    let size = layout.size.bytes();
    match ty.kind() {
        ty::Bool | ty::Char | ty::Uint(_) => match read_uint(alloc, off, size) {
            Some(v) => {
                let mut o = J::obj();
                o.put("int", J::i(v as i128));
                o
            }
            None => opaque("int"),
        },
        ty::Int(_) => match read_uint(alloc, off, size) {
            Some(v) => {
                let mut o = J::obj();
                let bits = size * 8;
                let sv = if bits < 128 && (v >> (bits - 1)) & 1 == 1 {
                    (v as i128) - (1i128 << bits)
                } else {
                    v as i128
                };
                o.put("int", J::i(sv));
                o
            }
            None => opaque("int"),
        },
        ty::Float(_) => match read_uint(alloc, off, size) {
            Some(v) => {
                let mut o = J::obj();
                o.put("fbits", J::i(v as i128));
                o
            }
            None => opaque("float"),
        },
        ty::Ref(_, inner, _) | ty::RawPtr(inner, _) => {
            let mut o = J::obj();
            let Some((ga, rel)) = follow(cx, alloc, off) else {
                o.put("ptr_int", J::i(read_uint(alloc, off, 8).unwrap_or(0) as i128));
                return o;
            };
            match ga {
                GlobalAlloc::Static(s) => {
                    o.put("static", J::s(&cx.name(s)));
                    o.put("static_id", J::s(&cx.raw_id(s)));
                }
                GlobalAlloc::Function { instance } => {
                    o.put("fnptr", J::s(&cx.name(instance.def_id())));
                }
                GlobalAlloc::Memory(mem) => {
                    let mem = mem.inner();
                    match inner.kind() {
                        ty::Str => {
                            let len = read_uint(alloc, off + 8, 8).unwrap_or(0) as usize;
                            let start = rel as usize;
                            if start + len <= mem.len() {
                                let bytes = mem.inspect_with_uninit_and_ptr_outside_interpreter(start..start + len);
                                if let Ok(s) = std::str::from_utf8(bytes) {
                                    o.put("str", J::s(s));
                                }
                            }
                        }
                        ty::Slice(elem) => {
                            let len = read_uint(alloc, off + 8, 8).unwrap_or(0);
                            let el = tcx.layout_of(tenv.as_query_input(*elem)).map(|l| l.size.bytes()).unwrap_or(0);
                            let mut items = Vec::new();
                            for i in 0..len.min(256) as u64 {
                                items.push(decode(cx, mem, rel + i * el, *elem, tenv, depth + 1));
                            }
                            o.put("slice", J::Arr(items));
                        }
                        ty::Dynamic(..) => {
                            o.put("dyn", J::Bool(true));
                        }
                        _ => {
                            o.put("ref", decode(cx, mem, rel, *inner, tenv, depth + 1));
                        }
                    }
                }
                _ => {
                    o.put("ptr", J::s("other"));
                }
            }
            o
        }
        ty::FnPtr(..) => {
            let mut o = J::obj();
            if let Some((GlobalAlloc::Function { instance }, _)) = follow(cx, alloc, off) {
                o.put("fnptr", J::s(&cx.name(instance.def_id())));
            }
            o
        }
        ty::Tuple(ts) => {
            let mut items = Vec::new();
            for (i, t) in ts.iter().enumerate() {
                let fo = layout.fields.offset(i).bytes();
                items.push(decode(cx, alloc, off + fo, t, tenv, depth + 1));
            }
            let mut o = J::obj();
            o.put("tuple", J::Arr(items));
            o
        }
        ty::Array(elem, _) => {
            let el = tcx.layout_of(tenv.as_query_input(*elem)).map(|l| l.size.bytes()).unwrap_or(0);
            let n = if el > 0 { size / el } else { 0 };
            let mut items = Vec::new();
            for i in 0..n.min(256) {
                items.push(decode(cx, alloc, off + i * el, *elem, tenv, depth + 1));
            }
            let mut o = J::obj();
            o.put("array", J::Arr(items));
            o
        }
        ty::Adt(adt, args) => {
            let mut o = J::obj();
            o.put("adt", J::s(&cx.name(adt.did())));
            if size <= 16 && size > 0 && !has_prov(alloc, off) {
                if let Some(v) = read_uint(alloc, off, size) {
                    o.put("bits", J::i(v as i128));
                }
            }
            if adt.is_union() {
                return o;
            }
            let lcx = LayoutCx::new(tcx, tenv);
            let vidx = match &layout.variants {
                Variants::Empty => return o,
                Variants::Single { index } => *index,
                Variants::Multiple { tag, tag_encoding, tag_field, .. } => {
                    let toff = layout.fields.offset(tag_field.as_usize()).bytes();
                    let tsize = tag.size(&tcx).bytes();
                    let tagv = read_uint(alloc, off + toff, tsize);
                    match tag_encoding {
                        TagEncoding::Direct => {
                            let Some(tagv) = tagv else { return o };
                            let mut found = None;
                            for (vi, _) in adt.variants().iter_enumerated() {
                                let d = adt.discriminant_for_variant(tcx, vi).val;
                                let mask = if tsize >= 16 { u128::MAX } else { (1u128 << (tsize * 8)) - 1 };
                                if d & mask == tagv {
                                    found = Some(vi);
                                }
                            }
                            match found {
                                Some(v) => v,
                                None => return o,
                            }
                        }
                        TagEncoding::Niche { untagged_variant, niche_variants, niche_start } => {
                            if has_prov(alloc, off + toff) {
                                *untagged_variant
                            } else {
                                let Some(tagv) = tagv else { return o };
                                let mask = if tsize >= 16 { u128::MAX } else { (1u128 << (tsize * 8)) - 1 };
                                let rel = tagv.wrapping_sub(*niche_start) & mask;
                                let lo = niche_variants.start().as_u32() as u128;
                                let hi = niche_variants.end().as_u32() as u128;
                                if rel <= hi - lo {
                                    rustc_abi::VariantIdx::from_u32((lo + rel) as u32)
                                } else {
                                    *untagged_variant
                                }
                            }
                        }
                    }
                }
            };
            let vdef = adt.variant(vidx);
            if adt.is_enum() {
                o.put("variant", J::s(vdef.name.as_str()));
            }
            let vlayout = layout.for_variant(&lcx, vidx);
            let mut fs = J::obj();
            for (i, f) in vdef.fields.iter().enumerate() {
                let fty = f.ty(tcx, args);
                let fo = vlayout.fields.offset(i).bytes();
                fs.put(f.name.as_str(), decode(cx, alloc, off + fo, fty, tenv, depth + 1));
            }
            o.put("f", fs);
            o
        }
        _ => opaque("kind"),
    }
}
