// factgen: a rustc_private driver that dumps the type-checked, resolved program
// (traits, impls, ADTs, constants and MIR bodies) of each crate it compiles as
// one JSON fact file. It is injected with RUSTC_WORKSPACE_WRAPPER; nothing of
// the analysed crates is executed.
#![feature(rustc_private)]
#![allow(clippy::all)]

extern crate rustc_abi;
extern crate rustc_const_eval;
extern crate rustc_driver;
extern crate rustc_hir;
extern crate rustc_interface;
extern crate rustc_middle;
extern crate rustc_span;

mod json;
mod consts;

use json::J;
use rustc_driver::Compilation;
use rustc_hir::def::DefKind;
use rustc_hir::def_id::{DefId, LOCAL_CRATE};
use rustc_interface::interface::Compiler;
use rustc_middle::mir::{
    AggregateKind, BasicBlock, Body, BorrowKind, CastKind, Const, ConstValue, Operand, Place,
    PlaceElem, ProjectionElem, Rvalue, StatementKind, TerminatorKind, UnwindAction,
};
use rustc_middle::ty::print::{with_crate_prefix, with_no_trimmed_paths, with_no_visible_paths};
use rustc_middle::ty::{self, Instance, Ty, TyCtxt, TypingEnv};
use rustc_span::Span;

struct Cb;

impl rustc_driver::Callbacks for Cb {
    fn after_analysis<'tcx>(&mut self, _c: &Compiler, tcx: TyCtxt<'tcx>) -> Compilation {
        if let Ok(dir) = std::env::var("FACTGEN_OUT") {
            let cname = tcx.crate_name(LOCAL_CRATE).to_string();
            if cname == "build_script_build" {
                return Compilation::Continue;
            }
            if let Ok(only) = std::env::var("FACTGEN_CRATES") {
                if !only.split(',').any(|c| c == cname) {
                    return Compilation::Continue;
                }
            }
            let cx = Cx { tcx, cname: cname.clone() };
            let doc = cx.dump_crate();
            let mut s = String::with_capacity(1 << 22);
            doc.write(&mut s);
            let path = format!("{}/{}.{}.json", dir, cname, std::process::id());
            let tmp = format!("{}.tmp", path);
            std::fs::write(&tmp, s).expect("factgen: cannot write fact file");
            std::fs::rename(&tmp, &path).expect("factgen: rename");
        }
        Compilation::Continue
    }
}

fn main() {
    let argv: Vec<String> = std::env::args().collect();
    // As RUSTC_WORKSPACE_WRAPPER: argv = [factgen, /path/to/rustc, args...]
    let mut args = vec!["rustc".to_string()];
    if argv.len() > 1 && (argv[1].ends_with("rustc") || argv[1].contains("/rustc")) {
        args.extend(argv[2..].iter().cloned());
    } else {
        args.extend(argv[1..].iter().cloned());
    }
    rustc_driver::run_compiler(&args, &mut Cb);
}

pub struct Cx<'tcx> {
    pub tcx: TyCtxt<'tcx>,
    pub cname: String,
}

fn fix_crate_prefix(s: &str, cname: &str) -> String {
    // replace `crate::` (at an identifier boundary) by `<cname>::`
    let b = s.as_bytes();
    let mut out = String::with_capacity(s.len() + 16);
    let mut i = 0;
    while i < b.len() {
        if s[i..].starts_with("crate::") {
            let prev_ok = i == 0 || !(b[i - 1].is_ascii_alphanumeric() || b[i - 1] == b'_');
            if prev_ok {
                out.push_str(cname);
                out.push_str("::");
                i += 7;
                continue;
            }
        }
        let ch = s[i..].chars().next().unwrap();
        out.push(ch);
        i += ch.len_utf8();
    }
    out
}

impl<'tcx> Cx<'tcx> {
    pub fn name(&self, did: DefId) -> String {
        let s = with_no_visible_paths!(with_no_trimmed_paths!(with_crate_prefix!(self
            .tcx
            .def_path_str(did))));
        fix_crate_prefix(&s, &self.cname)
    }
    pub fn name_args(&self, did: DefId, args: ty::GenericArgsRef<'tcx>) -> String {
        let s = with_no_visible_paths!(with_no_trimmed_paths!(with_crate_prefix!(self
            .tcx
            .def_path_str_with_args(did, args))));
        fix_crate_prefix(&s, &self.cname)
    }
    pub fn ty(&self, t: Ty<'tcx>) -> String {
        let s = with_no_visible_paths!(with_no_trimmed_paths!(with_crate_prefix!(format!("{}", t))));
        fix_crate_prefix(&s, &self.cname)
    }
    fn dbg<T: std::fmt::Debug>(&self, t: &T) -> String {
        let s =
            with_no_visible_paths!(with_no_trimmed_paths!(with_crate_prefix!(format!("{:?}", t))));
        fix_crate_prefix(&s, &self.cname)
    }
    pub fn raw_id(&self, did: DefId) -> String {
        format!(
            "{}{}",
            self.tcx.crate_name(did.krate),
            self.tcx.def_path(did).to_string_no_crate_verbose()
        )
    }

    fn span(&self, sp: Span) -> J {
        let sm = self.tcx.sess.source_map();
        let mut o = J::obj();
        if sp.is_dummy() {
            o.put("f", J::s(""));
            o.put("l", J::i(0));
            return o;
        }
        let lo = sm.lookup_char_pos(sp.lo());
        o.put("f", J::s(&file_name(&lo.file.name)));
        o.put("l", J::i(lo.line as i128));
        o.put("c", J::i(lo.col.0 as i128 + 1));
        if sp.from_expansion() {
            o.put("exp", J::Bool(true));
            let mut macs = Vec::new();
            for ed in sp.macro_backtrace() {
                macs.push(J::s(&format!("{}", ed.kind.descr())));
            }
            o.put("mac", J::Arr(macs));
            let cs = sp.source_callsite();
            let clo = sm.lookup_char_pos(cs.lo());
            o.put("cs", J::s(&format!("{}:{}:{}", file_name(&clo.file.name), clo.line, clo.col.0 + 1)));
        }
        o
    }

    fn span_range(&self, sp: Span) -> String {
        let sm = self.tcx.sess.source_map();
        if sp.is_dummy() {
            return String::new();
        }
        let lo = sm.lookup_char_pos(sp.lo());
        let hi = sm.lookup_char_pos(sp.hi());
        format!("{}:{}-{}", file_name(&lo.file.name), lo.line, hi.line)
    }

    fn dump_crate(&self) -> J {
        let tcx = self.tcx;
        let mut doc = J::obj();
        doc.put("crate", J::s(&self.cname));
        doc.put("config", J::s(&std::env::var("FACTGEN_CONFIG").unwrap_or_default()));
        let mut cfgs: Vec<String> = tcx
            .sess
            .config
            .iter()
            .map(|(k, v)| match v {
                Some(v) => format!("{}=\"{}\"", k, v),
                None => format!("{}", k),
            })
            .filter(|s| s.starts_with("feature") || s == "debug_assertions" || s.starts_with("tracing") || s == "test")
            .collect();
        cfgs.sort();
        doc.put("cfg", J::Arr(cfgs.iter().map(|s| J::s(s)).collect()));

        let mut adts = Vec::new();
        let mut traits = Vec::new();
        let mut impls = Vec::new();
        let mut consts_out = Vec::new();
        let mut fns = Vec::new();

        for id in tcx.hir_crate_items(()).definitions() {
            let did = id.to_def_id();
            match tcx.def_kind(did) {
                DefKind::Struct | DefKind::Enum | DefKind::Union => adts.push(self.dump_adt(did)),
                DefKind::Trait => traits.push(self.dump_trait(did)),
                DefKind::Impl { .. } => impls.push(self.dump_impl(did)),
                DefKind::Const { .. } | DefKind::AssocConst { .. } => {
                    if let Some(j) = consts::dump_const(self, did) {
                        consts_out.push(j)
                    }
                }
                DefKind::Static { .. } => {
                    if let Some(j) = consts::dump_static(self, did) {
                        consts_out.push(j)
                    }
                }
                DefKind::Fn | DefKind::AssocFn => fns.push(self.dump_fn_sig(did)),
                _ => {}
            }
        }
        doc.put("adts", J::Arr(adts));
        doc.put("traits", J::Arr(traits));
        doc.put("impls", J::Arr(impls));
        doc.put("consts", J::Arr(consts_out));
        doc.put("fns", J::Arr(fns));

        let mut bodies = Vec::new();
        let mut keys: Vec<_> = tcx.mir_keys(()).iter().copied().collect();
        keys.sort_by_key(|k| tcx.def_span(k.to_def_id()).lo());
        for ldid in keys {
            let did = ldid.to_def_id();
            let kind = tcx.def_kind(did);
            let ok = matches!(
                kind,
                DefKind::Fn | DefKind::AssocFn | DefKind::Closure | DefKind::Ctor(..)
            );
            if !ok {
                continue;
            }
            if matches!(kind, DefKind::Ctor(..)) {
                continue;
            }
            bodies.push(self.dump_body(did, kind));
        }
        doc.put("bodies", J::Arr(bodies));
        doc
    }

    fn dump_fn_sig(&self, did: DefId) -> J {
        let tcx = self.tcx;
        let mut o = J::obj();
        o.put("path", J::s(&self.name(did)));
        o.put("vis", J::s(&format!("{:?}", tcx.visibility(did))));
        let sig = tcx.fn_sig(did).instantiate_identity().skip_norm_wip().skip_binder();
        o.put("inputs", J::Arr(sig.inputs().iter().map(|t| J::s(&self.ty(*t))).collect()));
        o.put("output", J::s(&self.ty(sig.output())));
        o.put("unsafe", J::Bool(sig.safety().is_unsafe()));
        o.put("span", J::s(&self.span_range(tcx.def_span(did))));
        o
    }

    fn dump_adt(&self, did: DefId) -> J {
        let tcx = self.tcx;
        let adt = tcx.adt_def(did);
        let mut o = J::obj();
        o.put("path", J::s(&self.name(did)));
        o.put("kind", J::s(if adt.is_enum() { "enum" } else if adt.is_union() { "union" } else { "struct" }));
        o.put("span", J::s(&self.span_range(tcx.def_span(did))));
        o.put("vis", J::s(&format!("{:?}", tcx.visibility(did))));
        let mut vars = Vec::new();
        for (vidx, v) in adt.variants().iter_enumerated() {
            let mut vo = J::obj();
            vo.put("name", J::s(v.name.as_str()));
            if adt.is_enum() {
                let d = adt.discriminant_for_variant(tcx, vidx);
                vo.put("discr", J::i(d.val as i128));
            }
            let mut fs = Vec::new();
            for f in v.fields.iter() {
                let mut fo = J::obj();
                fo.put("name", J::s(f.name.as_str()));
                let fty = tcx.type_of(f.did).instantiate_identity().skip_norm_wip();
                fo.put("ty", J::s(&self.ty(fty)));
                fo.put("vis", J::s(&format!("{:?}", f.vis)));
                fs.push(fo);
            }
            vo.put("fields", J::Arr(fs));
            vars.push(vo);
        }
        o.put("variants", J::Arr(vars));
        o.put("has_drop", J::Bool(adt.has_dtor(tcx)));
        o
    }

    fn dump_trait(&self, did: DefId) -> J {
        let tcx = self.tcx;
        let mut o = J::obj();
        o.put("path", J::s(&self.name(did)));
        o.put("span", J::s(&self.span_range(tcx.def_span(did))));
        let mut ms = Vec::new();
        for item in tcx.associated_items(did).in_definition_order() {
            if !matches!(item.kind, ty::AssocKind::Fn { .. }) {
                continue;
            }
            let mut m = J::obj();
            m.put("name", J::s(item.name().as_str()));
            m.put("has_default", J::Bool(item.defaultness(tcx).has_value()));
            let sig = tcx.fn_sig(item.def_id).instantiate_identity().skip_norm_wip().skip_binder();
            m.put("inputs", J::Arr(sig.inputs().iter().map(|t| J::s(&self.ty(*t))).collect()));
            m.put("output", J::s(&self.ty(sig.output())));
            m.put("has_self", J::Bool(item.is_method()));
            m.put("deprecated", J::Bool(tcx.lookup_deprecation(item.def_id).is_some()));
            m.put("unsafe", J::Bool(sig.safety().is_unsafe()));
            m.put("path", J::s(&self.name(item.def_id)));
            ms.push(m);
        }
        o.put("methods", J::Arr(ms));
        o
    }

    fn ty_shape(&self, t: Ty<'tcx>) -> J {
        let mut o = J::obj();
        match t.kind() {
            ty::Adt(adt, args) => {
                o.put("ctor", J::s("adt"));
                o.put("adt", J::s(&self.name(adt.did())));
                let mut a = Vec::new();
                for ga in args.iter() {
                    if let Some(t) = ga.as_type() {
                        a.push(self.ty_shape(t));
                    }
                }
                o.put("args", J::Arr(a));
            }
            ty::Ref(_, inner, m) => {
                o.put("ctor", J::s(if m.is_mut() { "refmut" } else { "ref" }));
                o.put("args", J::Arr(vec![self.ty_shape(*inner)]));
            }
            ty::Param(p) => {
                o.put("ctor", J::s("param"));
                o.put("name", J::s(p.name.as_str()));
            }
            ty::Dynamic(..) => {
                o.put("ctor", J::s("dyn"));
                o.put("text", J::s(&self.ty(t)));
            }
            ty::Tuple(ts) => {
                o.put("ctor", J::s("tuple"));
                o.put("args", J::Arr(ts.iter().map(|t| self.ty_shape(t)).collect()));
            }
            ty::Slice(inner) => {
                o.put("ctor", J::s("slice"));
                o.put("args", J::Arr(vec![self.ty_shape(*inner)]));
            }
            _ => {
                o.put("ctor", J::s("other"));
                o.put("text", J::s(&self.ty(t)));
            }
        }
        o
    }

    fn dump_impl(&self, did: DefId) -> J {
        let tcx = self.tcx;
        let mut o = J::obj();
        o.put("id", J::s(&self.raw_id(did)));
        o.put("span", J::s(&self.span_range(tcx.def_span(did))));
        let self_ty = tcx.type_of(did).instantiate_identity().skip_norm_wip();
        o.put("self_ty", J::s(&self.ty(self_ty)));
        o.put("self_shape", self.ty_shape(self_ty));
        if let Some(tr) = tcx.impl_opt_trait_ref(did) {
            let tr = tr.instantiate_identity().skip_norm_wip();
            o.put("trait", J::s(&self.name(tr.def_id)));
            o.put("trait_ref", J::s(&self.dbg(&tr)));
            o.put("negative", J::Bool(matches!(tcx.impl_polarity(did), ty::ImplPolarity::Negative)));
        } else {
            o.put("trait", J::Null);
        }
        o.put(
            "derived",
            J::Bool(tcx.is_automatically_derived(did)),
        );
        // predicates (where clauses) as text
        let preds = tcx.predicates_of(did);
        let mut ps = Vec::new();
        for (p, _) in preds.predicates.iter() {
            ps.push(J::s(&self.dbg(p)));
        }
        o.put("where", J::Arr(ps));
        let mut items = J::obj_dyn();
        for item in tcx.associated_items(did).in_definition_order() {
            if matches!(item.kind, ty::AssocKind::Fn { .. }) {
                items.put_dyn(item.name().as_str(), J::s(&self.name(item.def_id)));
            }
        }
        o.put("methods", items);
        o
    }

    // ---------------------------------------------------------------- bodies

    fn dump_body(&self, did: DefId, kind: DefKind) -> J {
        let tcx = self.tcx;
        let body: &Body<'tcx> = tcx.optimized_mir(did);
        let mut o = J::obj();
        o.put("path", J::s(&self.name(did)));
        o.put("id", J::s(&self.raw_id(did)));
        o.put("kind", J::s(match kind {
            DefKind::Fn => "fn",
            DefKind::AssocFn => "method",
            DefKind::Closure => {
                if tcx.is_coroutine(did) { "coroutine" } else { "closure" }
            }
            _ => "other",
        }));
        let root = tcx.typeck_root_def_id(did);
        if root != did {
            o.put("root", J::s(&self.name(root)));
            o.put("parent", J::s(&self.name(tcx.parent(did))));
        }
        if matches!(kind, DefKind::AssocFn) {
            if let Some(imp) = tcx.impl_of_assoc(did) {
                o.put("impl", J::s(&self.raw_id(imp)));
                let self_ty = tcx.type_of(imp).instantiate_identity().skip_norm_wip();
                o.put("self_ty", J::s(&self.ty(self_ty)));
                if let Some(tr) = tcx.impl_opt_trait_ref(imp) {
                    let tr = tr.instantiate_identity().skip_norm_wip();
                    o.put("trait", J::s(&self.name(tr.def_id)));
                }
            } else if let Some(tr) = tcx.trait_of_assoc(did) {
                o.put("trait", J::s(&self.name(tr)));
                o.put("default_body", J::Bool(true));
            }
            o.put("name", J::s(tcx.item_name(did).as_str()));
        } else if matches!(kind, DefKind::Fn) {
            o.put("name", J::s(tcx.item_name(did).as_str()));
        }
        o.put("span", J::s(&self.span_range(body.span)));
        o.put("sp", self.span(body.span));
        o.put("argc", J::i(body.arg_count as i128));
        // the item's own type parameters, in the order a call's `targs` lists them (parent generics first)
        let mut tparams = Vec::new();
        for ga in ty::GenericArgs::identity_for_item(tcx, did).iter() {
            if let Some(t) = ga.as_type() {
                tparams.push(J::s(&self.ty(t)));
            }
        }
        o.put("tparams", J::Arr(tparams));
        // `#[track_caller]`: `Location::caller()` inside this body reports the caller's location (closures do not inherit it)
        if matches!(kind, DefKind::Fn | DefKind::AssocFn)
            && tcx
                .codegen_fn_attrs(did)
                .flags
                .contains(rustc_middle::middle::codegen_fn_attrs::CodegenFnAttrFlags::TRACK_CALLER)
        {
            o.put("track_caller", J::Bool(true));
        }
        let mut locals = Vec::new();
        for (_l, decl) in body.local_decls.iter_enumerated() {
            locals.push(J::s(&self.ty(decl.ty)));
        }
        o.put("locals", J::Arr(locals));
        let mut vdi = Vec::new();
        for v in body.var_debug_info.iter() {
            let mut vo = J::obj();
            vo.put("name", J::s(v.name.as_str()));
            match &v.value {
                rustc_middle::mir::VarDebugInfoContents::Place(p) => vo.put("place", self.place(body, p)),
                rustc_middle::mir::VarDebugInfoContents::Const(c) => vo.put("const", self.constant(body, did, &c.const_)),
            }
            vdi.push(vo);
        }
        o.put("vars", J::Arr(vdi));
        let mut blocks = Vec::new();
        for (_bb, data) in body.basic_blocks.iter_enumerated() {
            let mut b = J::obj();
            if data.is_cleanup {
                b.put("cleanup", J::Bool(true));
            }
            let mut stmts = Vec::new();
            for st in data.statements.iter() {
                if let Some(j) = self.stmt(body, did, st) {
                    stmts.push(j);
                }
            }
            b.put("stmts", J::Arr(stmts));
            let term = data.terminator();
            b.put("term", self.term(body, did, term));
            blocks.push(b);
        }
        o.put("blocks", J::Arr(blocks));
        // promoted constants: which named constants / values they are made of
        let mut proms = Vec::new();
        if let Some(ldid) = did.as_local() {
            for (pidx, pbody) in tcx.promoted_mir(ldid).iter_enumerated() {
                let mut po = J::obj();
                po.put("idx", J::s(&format!("{:?}", pidx)));
                let mut cs = Vec::new();
                for data in pbody.basic_blocks.iter() {
                    for st in data.statements.iter() {
                        if let StatementKind::Assign(bx) = &st.kind {
                            let mut ops: Vec<&Operand<'tcx>> = Vec::new();
                            match &bx.1 {
                                Rvalue::Use(op, _) => ops.push(op),
                                Rvalue::Aggregate(_, aops) => ops.extend(aops.iter()),
                                Rvalue::Cast(_, op, _) => ops.push(op),
                                _ => {}
                            }
                            for op in ops {
                                if let Operand::Constant(c) = op {
                                    cs.push(self.constant(pbody, did, &c.const_));
                                }
                            }
                        }
                    }
                }
                po.put("consts", J::Arr(cs));
                // the promoted body itself (usually one aggregate / one reference): lets a rule see *which* value
                // `&Enum::Variant` or `&(a, b)` stands for
                let mut pst = Vec::new();
                for data in pbody.basic_blocks.iter() {
                    for st in data.statements.iter() {
                        if let Some(j) = self.stmt(pbody, did, st) {
                            pst.push(j);
                        }
                    }
                }
                po.put("stmts", J::Arr(pst));
                proms.push(po);
            }
        }
        o.put("promoted", J::Arr(proms));
        o
    }

    fn place(&self, body: &Body<'tcx>, p: &Place<'tcx>) -> J {
        let tcx = self.tcx;
        let mut o = J::obj();
        o.put("l", J::i(p.local.as_u32() as i128));
        if !p.projection.is_empty() {
            let mut pr = Vec::new();
            for (i, elem) in p.projection.iter().enumerate() {
                let base_ty = Place::ty_from(p.local, &p.projection[..i], &body.local_decls, tcx);
                pr.push(self.proj(base_ty, elem));
            }
            o.put("p", J::Arr(pr));
        }
        o
    }

    fn proj(&self, base: rustc_middle::mir::PlaceTy<'tcx>, elem: PlaceElem<'tcx>) -> J {
        match elem {
            ProjectionElem::Deref => J::s("*"),
            ProjectionElem::Field(f, _fty) => {
                let mut o = J::obj();
                o.put("f", J::i(f.as_u32() as i128));
                match base.ty.kind() {
                    ty::Adt(adt, _) => {
                        let vidx = base.variant_index.unwrap_or(rustc_abi::FIRST_VARIANT);
                        let v = adt.variant(vidx);
                        if let Some(fd) = v.fields.get(f) {
                            o.put("n", J::s(fd.name.as_str()));
                        }
                        o.put("adt", J::s(&self.name(adt.did())));
                        if adt.is_enum() {
                            o.put("v", J::s(v.name.as_str()));
                        }
                    }
                    ty::Closure(cdid, _) | ty::Coroutine(cdid, _) | ty::CoroutineClosure(cdid, _) => {
                        o.put("closure", J::s(&self.name(*cdid)));
                        if let Some(l) = cdid.as_local() {
                            let caps = self.tcx.closure_captures(l);
                            if let Some(c) = caps.get(f.as_usize()) {
                                o.put("n", J::s(&format!("{}", c.to_symbol())));
                                o.put("byref", J::Bool(c.is_by_ref()));
                            }
                        }
                    }
                    ty::Tuple(_) => {
                        o.put("tuple", J::Bool(true));
                    }
                    _ => {}
                }
                o
            }
            ProjectionElem::Downcast(name, vidx) => {
                let mut o = J::obj();
                o.put("dc", J::i(vidx.as_u32() as i128));
                if let Some(n) = name {
                    o.put("v", J::s(n.as_str()));
                }
                o
            }
            ProjectionElem::Index(l) => {
                let mut o = J::obj();
                o.put("idx", J::i(l.as_u32() as i128));
                o
            }
            ProjectionElem::ConstantIndex { offset, from_end, .. } => {
                let mut o = J::obj();
                o.put("cidx", J::i(offset as i128));
                o.put("from_end", J::Bool(from_end));
                o
            }
            ProjectionElem::Subslice { from, to, from_end } => {
                let mut o = J::obj();
                o.put("sub", J::Arr(vec![J::i(from as i128), J::i(to as i128)]));
                o.put("from_end", J::Bool(from_end));
                o
            }
            ProjectionElem::OpaqueCast(_) => J::s("opaque"),
            ProjectionElem::UnwrapUnsafeBinder(_) => J::s("unwrap_binder"),
        }
    }

    fn operand(&self, body: &Body<'tcx>, owner: DefId, op: &Operand<'tcx>) -> J {
        let mut o = J::obj();
        match op {
            Operand::Copy(p) => o.put("copy", self.place(body, p)),
            Operand::Move(p) => o.put("move", self.place(body, p)),
            Operand::Constant(c) => o.put("const", self.constant(body, owner, &c.const_)),
            _ => o.put("other", J::s(&self.dbg(op))),
        }
        o
    }

    pub fn constant(&self, _body: &Body<'tcx>, owner: DefId, c: &Const<'tcx>) -> J {
        let tcx = self.tcx;
        let mut o = J::obj();
        let ty = c.ty();
        o.put("ty", J::s(&self.ty(ty)));
        match ty.kind() {
            ty::FnDef(fdid, args) => {
                o.put("fn", J::s(&self.name(*fdid)));
                o.put("fn_args", J::s(&self.dbg(args)));
                return o;
            }
            _ => {}
        }
        match ty.peel_refs().kind() {
            ty::Closure(cdid, _) | ty::Coroutine(cdid, _) => {
                o.put("closure", J::s(&self.name(*cdid)));
            }
            _ => {}
        }
        if let Const::Unevaluated(uv, _) = c {
            if uv.promoted.is_some() {
                o.put("promoted", J::s(&format!("{:?}", uv.promoted.unwrap())));
            } else {
                o.put("def", J::s(&self.name(uv.def)));
            }
        }
        // value
        let tenv = TypingEnv::post_analysis(tcx, owner);
        let val = match c {
            Const::Val(v, _) => Some(*v),
            Const::Unevaluated(uv, _) => {
                if uv.args.iter().any(|a| a.as_type().map_or(false, |t| rustc_middle::ty::TypeVisitableExt::has_param(&t))) {
                    None
                } else {
                    c.eval(tcx, tenv, rustc_span::DUMMY_SP).ok()
                }
            }
            Const::Ty(_, tc) => {
                if let Some(leaf) = tc.try_to_leaf() {
                    o.put("int", J::i(scalar_int_to_i128(leaf, ty)));
                    None
                } else if matches!(tc.kind(), ty::ConstKind::Value(_)) {
                    c.eval(tcx, tenv, rustc_span::DUMMY_SP).ok()
                } else {
                    None
                }
            }
        };
        if let Some(v) = val {
            match v {
                ConstValue::Scalar(rustc_middle::mir::interpret::Scalar::Int(si)) => {
                    o.put("int", J::i(scalar_int_to_i128(si, ty)));
                }
                ConstValue::Scalar(rustc_middle::mir::interpret::Scalar::Ptr(ptr, _)) => {
                    let (prov, _off) = ptr.prov_and_relative_offset();
                    match tcx.global_alloc(prov.alloc_id()) {
                        rustc_middle::mir::interpret::GlobalAlloc::Static(sdid) => {
                            o.put("static", J::s(&self.name(sdid)));
                            o.put("static_id", J::s(&self.raw_id(sdid)));
                        }
                        rustc_middle::mir::interpret::GlobalAlloc::Function { instance } => {
                            o.put("fnptr", J::s(&self.name(instance.def_id())));
                        }
                        _ => {
                            o.put("ptr", J::Bool(true));
                            if let Some(d) = consts::decode_const_value(self, v, ty, tenv) {
                                o.put("val", d);
                            }
                        }
                    }
                }
                ConstValue::ZeroSized => {
                    o.put("zst", J::Bool(true));
                }
                ConstValue::Slice { meta, .. } => {
                    if meta == 0 {
                        o.put("str", J::s(""));
                    } else if let Some(bytes) = v.try_get_slice_bytes_for_diagnostics(tcx) {
                        if let Ok(s) = std::str::from_utf8(bytes) {
                            o.put("str", J::s(s));
                        }
                    }
                }
                ConstValue::Indirect { .. } => {
                    if let Some(d) = consts::decode_const_value(self, v, ty, tenv) {
                        o.put("val", d);
                    }
                }
            }
        }
        o
    }

    fn rvalue(&self, body: &Body<'tcx>, owner: DefId, rv: &Rvalue<'tcx>) -> J {
        let mut o = J::obj();
        match rv {
            Rvalue::Use(op, _) => o.put("use", self.operand(body, owner, op)),
            Rvalue::Ref(_, bk, p) => {
                o.put("ref", self.place(body, p));
                if matches!(bk, BorrowKind::Mut { .. }) {
                    o.put("mut", J::Bool(true));
                }
            }
            Rvalue::RawPtr(k, p) => {
                o.put("rawptr", self.place(body, p));
                o.put("mut", J::Bool(format!("{:?}", k).contains("Mut")));
            }
            Rvalue::ThreadLocalRef(d) => o.put("tls", J::s(&self.name(*d))),
            Rvalue::Cast(kind, op, ty) => {
                let k = match kind {
                    CastKind::PointerCoercion(pc, _) => format!("ptr:{:?}", pc),
                    other => format!("{:?}", other),
                };
                o.put("cast", J::s(&k));
                o.put("op", self.operand(body, owner, op));
                o.put("ty", J::s(&self.ty(*ty)));
                o.put("from_ty", J::s(&self.ty(op.ty(&body.local_decls, self.tcx))));
            }
            Rvalue::BinaryOp(bop, ops) => {
                o.put("bin", J::s(&format!("{:?}", bop)));
                o.put("a", self.operand(body, owner, &ops.0));
                o.put("b", self.operand(body, owner, &ops.1));
            }
            Rvalue::UnaryOp(uop, op) => {
                o.put("un", J::s(&format!("{:?}", uop)));
                o.put("a", self.operand(body, owner, op));
            }
            Rvalue::Discriminant(p) => o.put("discr", self.place(body, p)),
            Rvalue::CopyForDeref(p) => {
                let mut u = J::obj();
                u.put("copy", self.place(body, p));
                o.put("use", u);
            }
            Rvalue::Aggregate(kind, ops) => {
                let mut a = J::obj();
                match &**kind {
                    AggregateKind::Adt(adid, vidx, _args, _, active) => {
                        let adt = self.tcx.adt_def(*adid);
                        a.put("adt", J::s(&self.name(*adid)));
                        let v = adt.variant(*vidx);
                        if adt.is_enum() {
                            a.put("variant", J::s(v.name.as_str()));
                        }
                        let mut names = Vec::new();
                        if let Some(fi) = active {
                            names.push(J::s(v.fields[*fi].name.as_str()));
                        } else {
                            for f in v.fields.iter() {
                                names.push(J::s(f.name.as_str()));
                            }
                        }
                        a.put("fields", J::Arr(names));
                    }
                    AggregateKind::Tuple => a.put("tuple", J::Bool(true)),
                    AggregateKind::Array(t) => a.put("array", J::s(&self.ty(*t))),
                    AggregateKind::Closure(c, _) => {
                        a.put("closure", J::s(&self.name(*c)));
                        if let Some(l) = c.as_local() {
                            let caps = self.tcx.closure_captures(l);
                            a.put("fields", J::Arr(caps.iter().map(|c| J::s(&format!("{}", c.to_symbol()))).collect()));
                        }
                    }
                    AggregateKind::Coroutine(c, _) => {
                        a.put("coroutine", J::s(&self.name(*c)));
                        if let Some(l) = c.as_local() {
                            let caps = self.tcx.closure_captures(l);
                            a.put("fields", J::Arr(caps.iter().map(|c| J::s(&format!("{}", c.to_symbol()))).collect()));
                        }
                    }
                    other => a.put("other", J::s(&format!("{:?}", other))),
                }
                o.put("agg", a);
                o.put("ops", J::Arr(ops.iter().map(|op| self.operand(body, owner, op)).collect()));
            }
            Rvalue::Repeat(op, n) => {
                o.put("repeat", self.operand(body, owner, op));
                o.put("n", J::s(&self.dbg(n)));
            }
            other => o.put("other", J::s(&self.dbg(other))),
        }
        o
    }

    fn stmt(&self, body: &Body<'tcx>, owner: DefId, st: &rustc_middle::mir::Statement<'tcx>) -> Option<J> {
        let mut o = J::obj();
        match &st.kind {
            StatementKind::Assign(bx) => {
                let (lhs, rv) = &**bx;
                o.put("k", J::s("assign"));
                o.put("lhs", self.place(body, lhs));
                o.put("rv", self.rvalue(body, owner, rv));
            }
            StatementKind::SetDiscriminant { place, variant_index } => {
                o.put("k", J::s("setdiscr"));
                o.put("lhs", self.place(body, place));
                o.put("variant", J::i(variant_index.as_u32() as i128));
            }
            StatementKind::Intrinsic(i) => {
                o.put("k", J::s("intrinsic"));
                o.put("dbg", J::s(&self.dbg(i)));
            }
            _ => return None,
        }
        o.put("sp", self.span(st.source_info.span));
        o.put("dbg", J::s(&self.dbg(&st.kind)));
        Some(o)
    }

    fn unwind(&self, u: &UnwindAction) -> J {
        match u {
            UnwindAction::Continue => J::s("continue"),
            UnwindAction::Unreachable => J::s("unreachable"),
            UnwindAction::Terminate(_) => J::s("terminate"),
            UnwindAction::Cleanup(bb) => J::i(bb.as_u32() as i128),
        }
    }

    fn bb(&self, bb: BasicBlock) -> J {
        J::i(bb.as_u32() as i128)
    }

    fn term(&self, body: &Body<'tcx>, owner: DefId, t: &rustc_middle::mir::Terminator<'tcx>) -> J {
        let tcx = self.tcx;
        let mut o = J::obj();
        match &t.kind {
            TerminatorKind::Goto { target } => {
                o.put("k", J::s("goto"));
                o.put("bb", self.bb(*target));
            }
            TerminatorKind::SwitchInt { discr, targets } => {
                o.put("k", J::s("switch"));
                o.put("on", self.operand(body, owner, discr));
                o.put("on_ty", J::s(&self.ty(discr.ty(&body.local_decls, tcx))));
                let mut arms = Vec::new();
                for (v, bb) in targets.iter() {
                    arms.push(J::Arr(vec![J::i(v as i128), self.bb(bb)]));
                }
                o.put("arms", J::Arr(arms));
                o.put("otherwise", self.bb(targets.otherwise()));
            }
            TerminatorKind::UnwindResume => o.put("k", J::s("resume")),
            TerminatorKind::UnwindTerminate(_) => o.put("k", J::s("terminate")),
            TerminatorKind::Return => o.put("k", J::s("return")),
            TerminatorKind::Unreachable => o.put("k", J::s("unreachable")),
            TerminatorKind::Drop { place, target, unwind, .. } => {
                o.put("k", J::s("drop"));
                o.put("place", self.place(body, place));
                o.put("ty", J::s(&self.ty(place.ty(&body.local_decls, tcx).ty)));
                o.put("ret", self.bb(*target));
                o.put("unwind", self.unwind(unwind));
            }
            TerminatorKind::Call { func, args, destination, target, unwind, .. } => {
                o.put("k", J::s("call"));
                o.put("callee", self.callee(body, owner, func));
                o.put("argv", J::Arr(args.iter().map(|a| self.operand(body, owner, &a.node)).collect()));
                o.put("dest", self.place(body, destination));
                match target {
                    Some(bb) => o.put("ret", self.bb(*bb)),
                    None => o.put("ret", J::Null),
                }
                o.put("unwind", self.unwind(unwind));
            }
            TerminatorKind::TailCall { func, args, .. } => {
                o.put("k", J::s("tailcall"));
                o.put("callee", self.callee(body, owner, func));
                o.put("argv", J::Arr(args.iter().map(|a| self.operand(body, owner, &a.node)).collect()));
            }
            TerminatorKind::Assert { cond, expected, target, unwind, msg } => {
                o.put("k", J::s("assert"));
                o.put("cond", self.operand(body, owner, cond));
                o.put("expected", J::Bool(*expected));
                o.put("ret", self.bb(*target));
                o.put("unwind", self.unwind(unwind));
                o.put("msg", J::s(&format!("{:?}", msg).chars().take(80).collect::<String>()));
            }
            TerminatorKind::Yield { value, resume, drop, .. } => {
                o.put("k", J::s("yield"));
                o.put("value", self.operand(body, owner, value));
                o.put("ret", self.bb(*resume));
                match drop {
                    Some(bb) => o.put("drop", self.bb(*bb)),
                    None => o.put("drop", J::Null),
                }
            }
            TerminatorKind::CoroutineDrop => o.put("k", J::s("coroutine_drop")),
            TerminatorKind::FalseEdge { real_target, .. } => {
                o.put("k", J::s("goto"));
                o.put("bb", self.bb(*real_target));
            }
            TerminatorKind::FalseUnwind { real_target, .. } => {
                o.put("k", J::s("goto"));
                o.put("bb", self.bb(*real_target));
            }
            TerminatorKind::InlineAsm { .. } => o.put("k", J::s("asm")),
        }
        o.put("sp", self.span(t.source_info.span));
        o.put("dbg", J::s(&self.dbg(&t.kind)));
        o
    }

    fn callee(&self, body: &Body<'tcx>, owner: DefId, func: &Operand<'tcx>) -> J {
        let tcx = self.tcx;
        let mut o = J::obj();
        let fty = func.ty(&body.local_decls, tcx);
        match fty.kind() {
            ty::FnDef(cdid, args) => {
                o.put("path", J::s(&self.name(*cdid)));
                o.put("full", J::s(&self.name_args(*cdid, args)));
                let mut targs = Vec::new();
                for ga in args.iter() {
                    if let Some(t) = ga.as_type() {
                        targs.push(J::s(&self.ty(t)));
                    }
                }
                o.put("targs", J::Arr(targs));
                if let Some(tr) = tcx.trait_of_assoc(*cdid) {
                    o.put("trait", J::s(&self.name(tr)));
                    o.put("method", J::s(tcx.item_name(*cdid).as_str()));
                    if let Some(st) = args.get(0).and_then(|a| a.as_type()) {
                        o.put("self_ty", J::s(&self.ty(st)));
                    }
                } else if let Some(imp) = tcx.impl_of_assoc(*cdid) {
                    o.put("method", J::s(tcx.item_name(*cdid).as_str()));
                    let st = tcx.type_of(imp).instantiate_identity().skip_norm_wip();
                    o.put("impl_self", J::s(&self.ty(st)));
                    if let ty::Adt(adt, _) = st.kind() {
                        o.put("impl_adt", J::s(&self.name(adt.did())));
                    }
                } else if let Some(n) = tcx.opt_item_name(*cdid) {
                    o.put("method", J::s(n.as_str()));
                }
                let tenv = TypingEnv::post_analysis(tcx, owner);
                if let Ok(Some(inst)) = Instance::try_resolve(tcx, tenv, *cdid, args) {
                    let rdid = inst.def_id();
                    if rdid != *cdid {
                        o.put("resolved", J::s(&self.name(rdid)));
                    }
                    match inst.def {
                        ty::InstanceKind::Item(_) => {}
                        ty::InstanceKind::Virtual(..) => o.put("virtual", J::Bool(true)),
                        ref other => o.put("shim", J::s(&format!("{:?}", other).chars().take(40).collect::<String>())),
                    }
                } else {
                    o.put("unresolved", J::Bool(true));
                }
            }
            _ => {
                o.put("ptr", self.operand(body, owner, func));
                o.put("ty", J::s(&self.ty(fty)));
            }
        }
        o
    }
}

fn scalar_int_to_i128<'tcx>(si: ty::ScalarInt, t: Ty<'tcx>) -> i128 {
    let size = si.size();
    if t.is_signed() {
        si.to_int(size)
    } else {
        si.to_uint(size) as i128
    }
}

fn file_name(n: &rustc_span::FileName) -> String {
    match n {
        rustc_span::FileName::Real(r) => match r.local_path() {
            Some(p) => p.to_string_lossy().into_owned(),
            None => format!("{:?}", r),
        },
        other => format!("{:?}", other),
    }
}
