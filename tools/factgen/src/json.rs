// Minimal JSON value + writer (no dependencies).
pub enum J {
    Null,
    Bool(bool),
    Int(i128),
    Str(String),
    Arr(Vec<J>),
    Obj(Vec<(String, J)>),
}

impl J {
    pub fn obj() -> J {
        J::Obj(Vec::new())
    }
    pub fn obj_dyn() -> J {
        J::Obj(Vec::new())
    }
    pub fn s(s: &str) -> J {
        J::Str(s.to_string())
    }
    pub fn i(i: i128) -> J {
        J::Int(i)
    }
    pub fn put(&mut self, k: &str, v: J) {
        if let J::Obj(items) = self {
            items.push((k.to_string(), v));
        }
    }
    pub fn put_dyn(&mut self, k: &str, v: J) {
        self.put(k, v)
    }
    pub fn write(&self, out: &mut String) {
        match self {
            J::Null => out.push_str("null"),
            J::Bool(b) => out.push_str(if *b { "true" } else { "false" }),
            J::Int(i) => {
                // JSON numbers outside the i64 range are written as strings
                if *i > i64::MAX as i128 || *i < i64::MIN as i128 {
                    out.push('"');
                    out.push_str(&i.to_string());
                    out.push('"');
                } else {
                    out.push_str(&i.to_string())
                }
            }
            J::Str(s) => write_str(s, out),
            J::Arr(a) => {
                out.push('[');
                for (n, x) in a.iter().enumerate() {
                    if n > 0 {
                        out.push(',');
                    }
                    x.write(out);
                }
                out.push(']');
            }
            J::Obj(items) => {
                out.push('{');
                for (n, (k, v)) in items.iter().enumerate() {
                    if n > 0 {
                        out.push(',');
                    }
                    write_str(k, out);
                    out.push(':');
                    v.write(out);
                }
                out.push('}');
            }
        }
    }
}

fn write_str(s: &str, out: &mut String) {
    out.push('"');
    for c in s.chars() {
        match c {
            '"' => out.push_str("\\\""),
            '\\' => out.push_str("\\\\"),
            '\n' => out.push_str("\\n"),
            '\r' => out.push_str("\\r"),
            '\t' => out.push_str("\\t"),
            c if (c as u32) < 0x20 => out.push_str(&format!("\\u{:04x}", c as u32)),
            c => out.push(c),
        }
    }
    out.push('"');
}
