//! C08 audit demonstration: `EnvFilter` answers `Interest::always()` for every
//! span callsite that a span-scoped (dynamic) directive *names*, without
//! looking at the span's level, while `EnvFilter::enabled` rejects the same
//! metadata when its level is more verbose than every dynamic directive.
//!
//! * `EnvFilter::new("[my_span]=warn")` and an INFO span `my_span`:
//!   `callsite_enabled` = always, `enabled` = false  ('always' for a callsite it
//!   rejects).
//! * `Not` of the same filter: `callsite_enabled` = never, `enabled` = true
//!   ('never' for a callsite it accepts), so whether the filtered subscriber
//!   sees the span depends on whether some *sibling* forces `enabled` to be
//!   asked.
#![cfg(all(feature = "registry", feature = "std", feature = "env-filter"))]

use std::sync::{
    atomic::{AtomicUsize, Ordering},
    Arc, Mutex,
};
use tracing::{collect::Interest, span, Collect, Metadata};
use tracing_subscriber::{
    filter::{dynamic_filter_fn, EnvFilter, FilterExt, LevelFilter},
    prelude::*,
    subscribe::{Context, Filter, Subscribe},
};

/// Counts the spans a subscriber is shown.
#[derive(Clone, Default)]
struct CountSpans(Arc<AtomicUsize>);

impl CountSpans {
    fn get(&self) -> usize {
        self.0.load(Ordering::SeqCst)
    }
}

impl<C: Collect> Subscribe<C> for CountSpans {
    fn on_new_span(&self, _: &span::Attributes<'_>, _: &span::Id, _: Context<'_, C>) {
        self.0.fetch_add(1, Ordering::SeqCst);
    }
}

#[derive(Clone, Default)]
struct Log {
    summary: Arc<Mutex<Vec<(&'static str, &'static str)>>>,
    decision: Arc<Mutex<Vec<(&'static str, bool)>>>,
}

/// Forwards everything to the wrapped filter and records what it answered.
struct Spy<F> {
    inner: F,
    log: Log,
}

impl<C, F: Filter<C>> Filter<C> for Spy<F> {
    fn enabled(&self, meta: &Metadata<'_>, cx: &Context<'_, C>) -> bool {
        let enabled = self.inner.enabled(meta, cx);
        // only `'static` names are used in this test
        let name: &'static str = if meta.name() == "my_span" { "my_span" } else { "other" };
        self.log.decision.lock().unwrap().push((name, enabled));
        enabled
    }

    fn callsite_enabled(&self, meta: &'static Metadata<'static>) -> Interest {
        let interest = self.inner.callsite_enabled(meta);
        let s = if interest.is_always() {
            "always"
        } else if interest.is_never() {
            "never"
        } else {
            "sometimes"
        };
        self.log.summary.lock().unwrap().push((meta.name(), s));
        interest
    }

    fn max_level_hint(&self) -> Option<LevelFilter> {
        self.inner.max_level_hint()
    }

    fn on_new_span(&self, attrs: &span::Attributes<'_>, id: &span::Id, cx: Context<'_, C>) {
        self.inner.on_new_span(attrs, id, cx)
    }
    fn on_enter(&self, id: &span::Id, cx: Context<'_, C>) {
        self.inner.on_enter(id, cx)
    }
    fn on_exit(&self, id: &span::Id, cx: Context<'_, C>) {
        self.inner.on_exit(id, cx)
    }
    fn on_close(&self, id: span::Id, cx: Context<'_, C>) {
        self.inner.on_close(id, cx)
    }
}

fn make_span() {
    // one single callsite, so that every stack is asked about the same metadata
    let _span = tracing::info_span!("my_span");
}

/// Runs `make_span` under `registry.with(counted.with_filter(spy(filter))).with(sibling)`,
/// where the sibling's filter is dynamic (`sometimes`), so that `Filter::enabled`
/// is really asked for the span. Returns (summary, decision) of `filter` for `my_span`.
fn ask<F>(filter: F) -> (&'static str, bool)
where
    F: Filter<tracing_subscriber::Registry> + Send + Sync + 'static,
{
    let log = Log::default();
    let spy = Spy {
        inner: filter,
        log: log.clone(),
    };
    let collector = tracing_subscriber::registry()
        .with(CountSpans::default().with_filter(spy))
        .with(CountSpans::default().with_filter(dynamic_filter_fn(|_, _| true)));
    tracing::collect::with_default(collector, make_span);

    let summary = log
        .summary
        .lock()
        .unwrap()
        .iter()
        .rev()
        .find(|(name, _)| *name == "my_span")
        .expect("callsite_enabled was asked about my_span")
        .1;
    let decision = log
        .decision
        .lock()
        .unwrap()
        .iter()
        .rev()
        .find(|(name, _)| *name == "my_span")
        .expect("enabled was asked about my_span")
        .1;
    (summary, decision)
}

#[test]
fn env_filter_says_always_for_a_span_it_rejects() {
    let (summary, decision) = ask(EnvFilter::new("[my_span]=warn"));
    assert!(
        !(summary == "always" && !decision),
        "C08 violated (clause: never answers 'always' for a callsite it could reject): \
         EnvFilter(\"[my_span]=warn\") published callsite_enabled = {} for the INFO span \
         `my_span`, but Filter::enabled answered {} for the same metadata",
        summary,
        decision
    );
}

#[test]
fn not_env_filter_says_never_for_a_span_it_accepts() {
    let (summary, decision) = ask(EnvFilter::new("[my_span]=warn").not());
    assert!(
        !(summary == "never" && decision),
        "C08 violated (clause: never answers 'never' for a callsite it would accept if asked \
         dynamically): EnvFilter(\"[my_span]=warn\").not() published callsite_enabled = {} for \
         the INFO span `my_span`, but Filter::enabled answered {} for the same metadata",
        summary,
        decision
    );
}

#[test]
fn what_the_filtered_subscriber_receives_depends_on_its_sibling() {
    // Alone, the cached summary (`never`) decides: the span is not delivered.
    let alone = CountSpans::default();
    let collector = tracing_subscriber::registry()
        .with(alone.clone().with_filter(EnvFilter::new("[my_span]=warn").not()));
    tracing::collect::with_default(collector, make_span);

    // Next to a subscriber whose filter is dynamic, `enabled` is asked and
    // accepts the very same span.
    let with_sibling = CountSpans::default();
    let collector = tracing_subscriber::registry()
        .with(
            with_sibling
                .clone()
                .with_filter(EnvFilter::new("[my_span]=warn").not()),
        )
        .with(CountSpans::default().with_filter(dynamic_filter_fn(|_, _| true)));
    tracing::collect::with_default(collector, make_span);

    assert_eq!(
        alone.get(),
        with_sibling.get(),
        "C08 violated (clause: the published summary agrees with the real decision): a subscriber \
         filtered by EnvFilter(\"[my_span]=warn\").not() was shown the INFO span `my_span` {} \
         time(s) when only its cached summary was consulted, but {} time(s) when its \
         Filter::enabled was really asked",
        alone.get(),
        with_sibling.get()
    );
}
