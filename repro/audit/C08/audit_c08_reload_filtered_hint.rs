//! C08 audit demonstration: a `Filtered` subscriber wrapped in a
//! `reload::Subscriber` no longer looks per-subscriber-filtered to the
//! `Layered` around it, so its filter's max-level hint is taken for a *global*
//! hint and the stack advertises a max level below what its unfiltered sibling
//! would accept.
#![cfg(all(feature = "registry", feature = "std"))]

use std::sync::{
    atomic::{AtomicUsize, Ordering},
    Arc,
};
use tracing::{Collect, Event};
use tracing_subscriber::{
    filter::LevelFilter,
    prelude::*,
    reload,
    subscribe::{Context, Subscribe},
};

#[derive(Clone, Default)]
struct Count(Arc<AtomicUsize>);

impl Count {
    fn get(&self) -> usize {
        self.0.load(Ordering::SeqCst)
    }
}

impl<C: Collect> Subscribe<C> for Count {
    fn on_event(&self, _: &Event<'_>, _: Context<'_, C>) {
        self.0.fetch_add(1, Ordering::SeqCst);
    }
}

fn check(order: &str, hint: Option<LevelFilter>, collector: impl Collect + Send + Sync + 'static, unfiltered: &Count) {
    // The unfiltered `Count` subscriber accepts every level, so the only sound
    // summaries for the whole stack are `None` or `Some(TRACE)`.
    let hint_ok = hint.is_none() || hint == Some(LevelFilter::TRACE);

    tracing::collect::with_default(collector, || {
        tracing::debug!("a DEBUG event the unfiltered subscriber wants");
    });
    let seen = unfiltered.get();

    assert!(
        hint_ok && seen == 1,
        "C08 violated (clause: stack summary advertises a maximum level below a level one of \
         its layers would receive) [{}]: the stack with reload::Subscriber<Filtered<_, INFO>> \
         next to an unfiltered subscriber published max_level_hint = {:?} (expected None), \
         and the unfiltered subscriber received {} of 1 DEBUG events",
        order, hint, seen
    );
}

#[test]
fn reloadable_filtered_subscriber_below_unfiltered_one() {
    // Reference: the same stack without the reload wrapper is summarised correctly.
    let plain = Count::default();
    let reference = tracing_subscriber::registry()
        .with(Count::default().with_filter(LevelFilter::INFO))
        .with(plain.clone());
    assert_eq!(reference.max_level_hint(), None, "reference stack (no reload)");
    drop(reference);

    let plain = Count::default();
    let (filtered, _handle) =
        reload::Subscriber::new(Count::default().with_filter(LevelFilter::INFO));
    let collector = tracing_subscriber::registry()
        .with(filtered)
        .with(plain.clone());
    let hint = collector.max_level_hint();
    check("registry.with(reload(filtered)).with(unfiltered)", hint, collector, &plain);
}

#[test]
fn reloadable_filtered_subscriber_above_unfiltered_one() {
    let plain = Count::default();
    let reference = tracing_subscriber::registry()
        .with(plain.clone())
        .with(Count::default().with_filter(LevelFilter::INFO));
    assert_eq!(reference.max_level_hint(), None, "reference stack (no reload)");
    drop(reference);

    let plain = Count::default();
    let (filtered, _handle) =
        reload::Subscriber::new(Count::default().with_filter(LevelFilter::INFO));
    let collector = tracing_subscriber::registry()
        .with(plain.clone())
        .with(filtered);
    let hint = collector.max_level_hint();
    check("registry.with(unfiltered).with(reload(filtered))", hint, collector, &plain);
}
