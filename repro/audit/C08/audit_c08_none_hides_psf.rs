//! C08 audit demonstration: an aggregate of subscribers (a `Vec`, or an
//! `and_then` tree) that contains per-subscriber-filtered subscribers *and* a
//! disabled `Option::None` subscriber is not recognised as
//! per-subscriber-filtered. The enclosing `Layered` then treats the aggregate's
//! max-level hint (which only describes the filtered subscribers in it) as a
//! global one, and the stack advertises a max level below what an unfiltered
//! subscriber elsewhere in the stack would accept.
#![cfg(all(feature = "registry", feature = "std"))]

use std::sync::{
    atomic::{AtomicUsize, Ordering},
    Arc,
};
use tracing::{Collect, Event};
use tracing_subscriber::{
    filter::{Filtered, LevelFilter},
    prelude::*,
    subscribe::{Context, Subscribe},
    Registry,
};

#[derive(Clone, Default)]
struct Count(Arc<AtomicUsize>);

impl Count {
    fn get(&self) -> usize {
        self.0.load(Ordering::SeqCst)
    }
}

impl<C: Collect> Subscribe<C> for Count {
    fn on_event(&self, _: &Event<'_>, _: Context<'_, C>) {
        self.0.fetch_add(1, Ordering::SeqCst);
    }
}

type OptionalFiltered = Option<Filtered<Count, LevelFilter, Registry>>;

fn check(
    shape: &str,
    hint: Option<LevelFilter>,
    collector: impl Collect + Send + Sync + 'static,
    unfiltered: &Count,
) {
    // The unfiltered `Count` subscriber accepts every level, so the only sound
    // summaries for the whole stack are `None` or `Some(TRACE)`.
    let hint_ok = hint.is_none() || hint == Some(LevelFilter::TRACE);

    tracing::collect::with_default(collector, || {
        tracing::debug!("a DEBUG event the unfiltered subscriber wants");
    });
    let seen = unfiltered.get();

    assert!(
        hint_ok && seen == 1,
        "C08 violated (clause: stack summary advertises a maximum level below a level one of \
         its layers would receive) [{}]: published max_level_hint = {:?} (expected None), and \
         the unfiltered subscriber received {} of 1 DEBUG events",
        shape, hint, seen
    );
}

#[test]
fn vec_of_filtered_and_none_below_unfiltered() {
    // Reference: without the `None` element the stack is summarised correctly.
    let plain = Count::default();
    let subscribers: Vec<Box<dyn Subscribe<Registry> + Send + Sync>> =
        vec![Count::default().with_filter(LevelFilter::INFO).boxed()];
    let reference = tracing_subscriber::registry()
        .with(subscribers)
        .with(plain.clone());
    assert_eq!(reference.max_level_hint(), None, "reference stack (no None element)");
    drop(reference);

    let plain = Count::default();
    let disabled: OptionalFiltered = None;
    let subscribers: Vec<Box<dyn Subscribe<Registry> + Send + Sync>> = vec![
        Count::default().with_filter(LevelFilter::INFO).boxed(),
        disabled.boxed(),
    ];
    let collector = tracing_subscriber::registry()
        .with(subscribers)
        .with(plain.clone());
    let hint = collector.max_level_hint();
    check(
        "registry.with(vec![filtered(INFO), None]).with(unfiltered)",
        hint,
        collector,
        &plain,
    );
}

#[test]
fn and_then_tree_of_filtered_and_none_below_unfiltered() {
    // Reference: with `Some(filtered)` instead of `None` the summary is right.
    let plain = Count::default();
    let enabled: OptionalFiltered = Some(Count::default().with_filter(LevelFilter::INFO));
    let reference = tracing_subscriber::registry()
        .with(Subscribe::and_then(
            enabled,
            Count::default().with_filter(LevelFilter::INFO),
        ))
        .with(plain.clone());
    assert_eq!(reference.max_level_hint(), None, "reference stack (Some instead of None)");
    drop(reference);

    let plain = Count::default();
    let disabled: OptionalFiltered = None;
    let collector = tracing_subscriber::registry()
        .with(Subscribe::and_then(
            disabled,
            Count::default().with_filter(LevelFilter::INFO),
        ))
        .with(plain.clone());
    let hint = collector.max_level_hint();
    check(
        "registry.with(None.and_then(filtered(INFO))).with(unfiltered)",
        hint,
        collector,
        &plain,
    );
}
