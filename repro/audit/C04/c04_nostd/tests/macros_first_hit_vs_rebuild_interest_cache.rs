//! C04 audit demonstration -- `tracing` + `tracing-core` built WITHOUT `std`,
//! using the real `tracing::info!` macro (and therefore the real
//! `MacroCallsite`).
//!
//! Same race as `first_hit_vs_rebuild_interest_cache.rs`. Because a
//! `MacroCallsite` offers no hook, the registering thread is held up inside the
//! collector's `register_callsite`, immediately before it returns the answer it
//! has already computed from the then-current filter configuration -- i.e. the
//! thread is "preempted" on the `ret` of `register_callsite`.
use std::sync::atomic::{AtomicBool, AtomicUsize, Ordering};
use std::thread;
use tracing_core::{
    callsite,
    collect::{Collect, Interest},
    dispatch::{self, Dispatch},
    span, Event, LevelFilter, Metadata,
};

static ACCEPT: AtomicBool = AtomicBool::new(false);
static OFFERED_WHILE_ACCEPTING: AtomicUsize = AtomicUsize::new(0);
static DELIVERED: AtomicUsize = AtomicUsize::new(0);

static ARMED: AtomicBool = AtomicBool::new(false);
static GO: AtomicBool = AtomicBool::new(false);
static DONE: AtomicBool = AtomicBool::new(false);

struct Reloadable;
static COLLECTOR: Reloadable = Reloadable;

impl Collect for Reloadable {
    fn register_callsite(&self, _: &'static Metadata<'static>) -> Interest {
        let answer = if ACCEPT.load(Ordering::SeqCst) {
            OFFERED_WHILE_ACCEPTING.fetch_add(1, Ordering::SeqCst);
            Interest::always()
        } else {
            Interest::never()
        };
        if ARMED.swap(false, Ordering::SeqCst) {
            GO.store(true, Ordering::SeqCst);
            while !DONE.load(Ordering::SeqCst) {
                thread::yield_now();
            }
        }
        answer
    }
    fn enabled(&self, _: &Metadata<'_>) -> bool {
        ACCEPT.load(Ordering::SeqCst)
    }
    fn new_span(&self, _: &span::Attributes<'_>) -> span::Id {
        span::Id::from_u64(1)
    }
    fn record(&self, _: &span::Id, _: &span::Record<'_>) {}
    fn record_follows_from(&self, _: &span::Id, _: &span::Id) {}
    fn event(&self, _: &Event<'_>) {
        DELIVERED.fetch_add(1, Ordering::SeqCst);
    }
    fn enter(&self, _: &span::Id) {}
    fn exit(&self, _: &span::Id) {}
    fn current_span(&self) -> span::Current {
        span::Current::unknown()
    }
}

fn emit() {
    tracing::info!("hello");
}

#[test]
fn macro_callsite_first_hit_racing_with_rebuild_is_not_stranded() {
    dispatch::set_global_default(Dispatch::from_static(&COLLECTOR)).unwrap();
    assert_eq!(LevelFilter::current(), LevelFilter::TRACE);
    ARMED.store(true, Ordering::SeqCst);

    let t1 = thread::spawn(emit);
    let t2 = thread::spawn(|| {
        while !GO.load(Ordering::SeqCst) {
            thread::yield_now();
        }
        // reconfigure the filter, then rebuild, as the docs require
        ACCEPT.store(true, Ordering::SeqCst);
        callsite::rebuild_interest_cache();
        DONE.store(true, Ordering::SeqCst);
    });
    t1.join().unwrap();
    t2.join().unwrap();

    for _ in 0..3 {
        emit();
    }
    let offered = OFFERED_WHILE_ACCEPTING.load(Ordering::SeqCst);
    let delivered = DELIVERED.load(Ordering::SeqCst);
    println!(
        "after quiescence: offered to the collector since its filter accepts = {}, \
         tracing::info! events delivered out of 3 = {}",
        offered, delivered
    );
    assert_eq!(
        delivered, 3,
        "C04 clause violated (no_std registry): \"once the activity quiesces every live \
         collector receives exactly the emissions its filter accepts - a callsite is never left \
         permanently disabled\" -- the collector accepts everything, yet {} of 3 \
         tracing::info! events were delivered (callsite offered {} time(s) since the filter \
         accepts)",
        delivered, offered
    );
}
