//! C04 audit demonstration -- `tracing-core` built WITHOUT `std`.
//!
//! Same root cause as `first_hit_vs_rebuild_interest_cache.rs`, this time for
//! `set_global_default`: the no_std `callsite::register` reads the global
//! default (`dispatch::get_global()`), asks *that* dispatcher, stores the
//! answer and only then pushes the callsite. If the global default is
//! installed in between, `set_global_default`'s re-evaluation of the cached
//! interests does not see the callsite, and the callsite keeps the `never` it
//! got from the no-op dispatcher: it is never offered to the collector that is
//! live afterwards and stays disabled for good.
//!
//! (A callsite driven by the `tracing` macros is shielded from this particular
//! window as long as the max level is still OFF, because the macros check the
//! level first; callers of the public `tracing_core::callsite::register`, or
//! any program in which `rebuild_interest_cache()` ran before -- which raises
//! the max level to TRACE -- are not.)
//!
//! The interleaving is forced from `Callsite::metadata`, which the registry
//! calls after it has picked the dispatcher and before it asks it.
use std::sync::atomic::{AtomicBool, AtomicU8, AtomicUsize, Ordering};
use std::thread;
use tracing_core::{
    callsite::{self, Callsite, Registration},
    collect::{Collect, Interest},
    dispatch::{self, Dispatch},
    metadata,
    metadata::Kind,
    span, Event, Level, LevelFilter, Metadata,
};

static OFFERED: AtomicUsize = AtomicUsize::new(0);
static DELIVERED: AtomicUsize = AtomicUsize::new(0);

/// Accepts everything.
struct AcceptAll;
static COLLECTOR: AcceptAll = AcceptAll;

impl Collect for AcceptAll {
    fn register_callsite(&self, _: &'static Metadata<'static>) -> Interest {
        OFFERED.fetch_add(1, Ordering::SeqCst);
        Interest::always()
    }
    fn enabled(&self, _: &Metadata<'_>) -> bool {
        true
    }
    fn new_span(&self, _: &span::Attributes<'_>) -> span::Id {
        span::Id::from_u64(1)
    }
    fn record(&self, _: &span::Id, _: &span::Record<'_>) {}
    fn record_follows_from(&self, _: &span::Id, _: &span::Id) {}
    fn event(&self, _: &Event<'_>) {
        DELIVERED.fetch_add(1, Ordering::SeqCst);
    }
    fn enter(&self, _: &span::Id) {}
    fn exit(&self, _: &span::Id) {}
    fn current_span(&self) -> span::Current {
        span::Current::unknown()
    }
}

const EMPTY: u8 = 0xFF;
static ARMED: AtomicBool = AtomicBool::new(false);
static GO: AtomicBool = AtomicBool::new(false);
static DONE: AtomicBool = AtomicBool::new(false);

struct TestCallsite {
    interest: AtomicU8,
    registered: AtomicBool,
}
static CS: TestCallsite = TestCallsite {
    interest: AtomicU8::new(EMPTY),
    registered: AtomicBool::new(false),
};
static META: Metadata<'static> = metadata! {
    name: "c04 event",
    target: "c04",
    level: Level::INFO,
    fields: &[],
    callsite: &CS,
    kind: Kind::EVENT
};
static REG: Registration = Registration::new(&CS);

impl Callsite for TestCallsite {
    fn set_interest(&self, interest: Interest) {
        let v = if interest.is_never() {
            0
        } else if interest.is_always() {
            2
        } else {
            1
        };
        self.interest.store(v, Ordering::SeqCst);
    }
    fn metadata(&self) -> &Metadata<'_> {
        if ARMED.swap(false, Ordering::SeqCst) {
            // "preempted" between `dispatch::get_global()` and
            // `dispatcher.register_callsite(meta)`
            GO.store(true, Ordering::SeqCst);
            while !DONE.load(Ordering::SeqCst) {
                thread::yield_now();
            }
        }
        &META
    }
}

/// First hit: register; later hits: use the cached interest.
fn emit() {
    let mut interest = CS.interest.load(Ordering::SeqCst);
    if interest == EMPTY {
        if !CS.registered.swap(true, Ordering::SeqCst) {
            callsite::register(&REG);
        }
        interest = CS.interest.load(Ordering::SeqCst);
    }
    let enabled = Level::INFO <= LevelFilter::current()
        && match interest {
            0 => false,
            2 => true,
            _ => dispatch::get_default(|d| d.enabled(&META)),
        };
    if enabled {
        Event::dispatch(&META, &META.fields().value_set(&[]));
    }
}

#[test]
fn first_hit_racing_with_set_global_default_is_not_stranded() {
    ARMED.store(true, Ordering::SeqCst);

    // thread 1: hits the callsite for the first time
    let t1 = thread::spawn(emit);
    // thread 2: installs the global default collector
    let t2 = thread::spawn(|| {
        while !GO.load(Ordering::SeqCst) {
            thread::yield_now();
        }
        dispatch::set_global_default(Dispatch::from_static(&COLLECTOR)).unwrap();
        DONE.store(true, Ordering::SeqCst);
    });
    t1.join().unwrap();
    t2.join().unwrap();

    // ---- quiescent: the global collector is installed and accepts everything
    assert_eq!(LevelFilter::current(), LevelFilter::TRACE);
    for _ in 0..3 {
        emit();
    }
    let cached = CS.interest.load(Ordering::SeqCst);
    let offered = OFFERED.load(Ordering::SeqCst);
    let delivered = DELIVERED.load(Ordering::SeqCst);
    println!(
        "after quiescence: cached interest = {} (0 = never), register_callsite calls on the \
         global collector = {}, events delivered out of 3 = {}",
        cached, offered, delivered
    );

    assert!(
        offered >= 1,
        "C04 clause violated (no_std registry): \"every callsite is offered to every collector \
         that is live afterwards\" -- the callsite was registered concurrently with \
         set_global_default and was never offered to the global collector; cached interest = {} \
         (0 = never)",
        cached
    );
    assert_eq!(
        delivered, 3,
        "C04 clause violated (no_std registry): \"a callsite is never left permanently disabled \
         for a collector that wants it\" -- {} of 3 post-quiescence events delivered",
        delivered
    );
}
