//! C04 audit demonstration -- `tracing-core` built WITHOUT `std`.
//!
//! Clauses: "every callsite is offered to every collector that is live
//! afterwards" / "a callsite is never left permanently disabled for a
//! collector that wants it" / "once the activity quiesces every live collector
//! receives exactly the emissions its filter accepts".
//!
//! With `std`, `callsite::register` computes the interest and pushes the
//! callsite onto the registry list under `REGISTRY.dispatchers.read()`, and
//! `rebuild_interest_cache` runs under the write lock, so a rebuild either
//! sees the new callsite or happens-before its interest is computed.
//!
//! The `not(feature = "std")` registry (tracing-core/src/callsite.rs,
//! `mod inner`, lines 295-370) has no lock at all:
//!
//! ```ignore
//! pub fn register(registration: &'static Registration) {
//!     rebuild_callsite_interest(dispatch::get_global(), registration.callsite); // (1) ask + store
//!     REGISTRY.push(registration);                                              // (2) publish
//! }
//! ```
//!
//! A `rebuild_interest_cache()` that runs between "the collector was asked"
//! in (1) and (2) does not see the callsite, and the stale answer is stored /
//! published afterwards. The callsite then stays `never` although the
//! collector's (new) filter accepts it.
//!
//! The interleaving is forced from `Callsite::set_interest`, i.e. after the
//! collector has answered and before the callsite is pushed.
use std::sync::atomic::{AtomicBool, AtomicU8, AtomicUsize, Ordering};
use std::thread;
use tracing_core::{
    callsite::{self, Callsite, Registration},
    collect::{Collect, Interest},
    dispatch::{self, Dispatch},
    metadata,
    metadata::Kind,
    span, Event, Level, LevelFilter, Metadata,
};

// ---- a collector with a runtime-reloadable filter -------------------------

/// The collector's filter: rejects everything while `false`, accepts
/// everything once `true`. As documented for `rebuild_interest_cache`, the
/// collector answers `always`/`never` and whoever flips the filter calls
/// `rebuild_interest_cache()` afterwards.
static ACCEPT: AtomicBool = AtomicBool::new(false);
static OFFERED_WHILE_ACCEPTING: AtomicUsize = AtomicUsize::new(0);
static DELIVERED: AtomicUsize = AtomicUsize::new(0);

struct Reloadable;
static COLLECTOR: Reloadable = Reloadable;

impl Collect for Reloadable {
    fn register_callsite(&self, _: &'static Metadata<'static>) -> Interest {
        if ACCEPT.load(Ordering::SeqCst) {
            OFFERED_WHILE_ACCEPTING.fetch_add(1, Ordering::SeqCst);
            Interest::always()
        } else {
            Interest::never()
        }
    }
    fn enabled(&self, _: &Metadata<'_>) -> bool {
        ACCEPT.load(Ordering::SeqCst)
    }
    fn new_span(&self, _: &span::Attributes<'_>) -> span::Id {
        span::Id::from_u64(1)
    }
    fn record(&self, _: &span::Id, _: &span::Record<'_>) {}
    fn record_follows_from(&self, _: &span::Id, _: &span::Id) {}
    fn event(&self, _: &Event<'_>) {
        DELIVERED.fetch_add(1, Ordering::SeqCst);
    }
    fn enter(&self, _: &span::Id) {}
    fn exit(&self, _: &span::Id) {}
    fn current_span(&self) -> span::Current {
        span::Current::unknown()
    }
}

// ---- a callsite that works like tracing's `MacroCallsite` ------------------

const EMPTY: u8 = 0xFF;
static ARMED: AtomicBool = AtomicBool::new(false);
static GO: AtomicBool = AtomicBool::new(false);
static DONE: AtomicBool = AtomicBool::new(false);

struct TestCallsite {
    interest: AtomicU8,
    registered: AtomicBool,
}
static CS: TestCallsite = TestCallsite {
    interest: AtomicU8::new(EMPTY),
    registered: AtomicBool::new(false),
};
static META: Metadata<'static> = metadata! {
    name: "c04 event",
    target: "c04",
    level: Level::INFO,
    fields: &[],
    callsite: &CS,
    kind: Kind::EVENT
};
static REG: Registration = Registration::new(&CS);

impl Callsite for TestCallsite {
    fn set_interest(&self, interest: Interest) {
        if ARMED.swap(false, Ordering::SeqCst) {
            // The registering thread is "preempted" here: the collector has
            // been asked, the callsite is not on the registry list yet.
            GO.store(true, Ordering::SeqCst);
            while !DONE.load(Ordering::SeqCst) {
                thread::yield_now();
            }
        }
        let v = if interest.is_never() {
            0
        } else if interest.is_always() {
            2
        } else {
            1
        };
        self.interest.store(v, Ordering::SeqCst);
    }
    fn metadata(&self) -> &Metadata<'_> {
        &META
    }
}

/// What `tracing::event!` does with its `MacroCallsite`.
fn emit() {
    if Level::INFO > LevelFilter::current() {
        return;
    }
    let mut interest = CS.interest.load(Ordering::SeqCst);
    if interest == EMPTY {
        if !CS.registered.swap(true, Ordering::SeqCst) {
            callsite::register(&REG);
        }
        interest = CS.interest.load(Ordering::SeqCst);
    }
    let enabled = match interest {
        0 => false,
        2 => true,
        _ => dispatch::get_default(|d| d.enabled(&META)),
    };
    if enabled {
        Event::dispatch(&META, &META.fields().value_set(&[]));
    }
}

#[test]
fn first_hit_racing_with_rebuild_interest_cache_is_not_stranded() {
    dispatch::set_global_default(Dispatch::from_static(&COLLECTOR)).unwrap();
    assert_eq!(LevelFilter::current(), LevelFilter::TRACE);

    ARMED.store(true, Ordering::SeqCst);

    // thread 1: hits the callsite for the first time
    let t1 = thread::spawn(emit);
    // thread 2: reconfigures the collector's filter and rebuilds the cache
    let t2 = thread::spawn(|| {
        while !GO.load(Ordering::SeqCst) {
            thread::yield_now();
        }
        ACCEPT.store(true, Ordering::SeqCst);
        callsite::rebuild_interest_cache();
        DONE.store(true, Ordering::SeqCst);
    });
    t1.join().unwrap();
    t2.join().unwrap();

    // ---- everything has quiesced; the collector now accepts everything ----
    for _ in 0..3 {
        emit();
    }
    let cached = CS.interest.load(Ordering::SeqCst);
    let offered = OFFERED_WHILE_ACCEPTING.load(Ordering::SeqCst);
    let delivered = DELIVERED.load(Ordering::SeqCst);
    println!(
        "after quiescence: cached interest = {} (0 = never), offered to the collector since its \
         filter accepts = {}, events delivered out of 3 = {}",
        cached, offered, delivered
    );

    // control: the callsite *is* on the list; one more rebuild repairs it
    callsite::rebuild_interest_cache();
    emit();
    println!(
        "control, after one more rebuild_interest_cache(): cached interest = {}, delivered = {}",
        CS.interest.load(Ordering::SeqCst),
        DELIVERED.load(Ordering::SeqCst)
    );

    assert!(
        offered >= 1,
        "C04 clause violated (no_std registry): \"every callsite is offered to every collector \
         that is live afterwards\" -- the callsite was registered concurrently with \
         rebuild_interest_cache() and was never offered to the collector after its filter \
         changed; cached interest = {} (0 = never)",
        cached
    );
    assert_eq!(
        delivered, 3,
        "C04 clause violated (no_std registry): \"a callsite is never left permanently disabled \
         for a collector that wants it\" -- the collector accepts everything, but only {} of 3 \
         post-quiescence events were delivered",
        delivered
    );
}
