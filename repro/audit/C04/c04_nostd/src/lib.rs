//! Empty: this crate only hosts the integration tests under `tests/`, which
//! exercise `tracing-core` / `tracing` built without the `std` feature.
