//! C04 audit demonstration (std).
//!
//! Clause: "During the race an emission is never delivered to a collector
//! whose filter rejects it."
//!
//! An emission takes its enable/disable decision from the callsite's cached
//! `Interest` (and, for `sometimes`, from `enabled()` of the dispatcher that is
//! current *at that moment*), and only afterwards looks the current dispatcher
//! up a second time (`Event::dispatch` -> `dispatch::get_default`) to deliver.
//! If another thread creates and installs a collector between those two steps,
//! the event is handed to the newly installed collector without that
//! collector's filter (`register_callsite` / `enabled`) ever having been asked
//! about this emission.
//!
//! The interleaving is forced with nothing but public API: the field value
//! expression of an event macro is evaluated after the enabled-check and
//! before `Event::dispatch`.
use std::sync::{
    atomic::{AtomicUsize, Ordering},
    mpsc, Arc,
};
use std::thread;
use tracing::{
    collect::{Collect, Interest},
    span, Dispatch, Event, Metadata,
};

/// Accepts everything (statically: `Interest::always`).
struct Accept;

impl Collect for Accept {
    fn register_callsite(&self, _: &'static Metadata<'static>) -> Interest {
        Interest::always()
    }
    fn enabled(&self, _: &Metadata<'_>) -> bool {
        true
    }
    fn new_span(&self, _: &span::Attributes<'_>) -> span::Id {
        span::Id::from_u64(1)
    }
    fn record(&self, _: &span::Id, _: &span::Record<'_>) {}
    fn record_follows_from(&self, _: &span::Id, _: &span::Id) {}
    fn event(&self, _: &Event<'_>) {}
    fn enter(&self, _: &span::Id) {}
    fn exit(&self, _: &span::Id) {}
    fn current_span(&self) -> tracing_core::span::Current {
        tracing_core::span::Current::unknown()
    }
}

/// Rejects everything: `Interest::never` statically and `enabled() == false`
/// dynamically. Counts how often its filter was consulted and how many events
/// were delivered to it anyway.
struct Reject {
    registered: Arc<AtomicUsize>,
    asked: Arc<AtomicUsize>,
    delivered: Arc<AtomicUsize>,
}

impl Collect for Reject {
    fn register_callsite(&self, _: &'static Metadata<'static>) -> Interest {
        self.registered.fetch_add(1, Ordering::SeqCst);
        Interest::never()
    }
    fn enabled(&self, _: &Metadata<'_>) -> bool {
        self.asked.fetch_add(1, Ordering::SeqCst);
        false
    }
    fn new_span(&self, _: &span::Attributes<'_>) -> span::Id {
        span::Id::from_u64(1)
    }
    fn record(&self, _: &span::Id, _: &span::Record<'_>) {}
    fn record_follows_from(&self, _: &span::Id, _: &span::Id) {}
    fn event(&self, _: &Event<'_>) {
        self.delivered.fetch_add(1, Ordering::SeqCst);
    }
    fn enter(&self, _: &span::Id) {}
    fn exit(&self, _: &span::Id) {}
    fn current_span(&self) -> tracing_core::span::Current {
        tracing_core::span::Current::unknown()
    }
}

#[test]
fn event_in_flight_is_delivered_to_a_collector_that_rejects_it() {
    let registered = Arc::new(AtomicUsize::new(0));
    let asked = Arc::new(AtomicUsize::new(0));
    let delivered = Arc::new(AtomicUsize::new(0));

    // A live collector that accepts everything. It is not installed on the
    // emitting thread; it only has to exist (e.g. it is the scoped default of
    // some other thread), so that the callsite's cached interest is `always`.
    let accept = Dispatch::new(Accept);

    // Thread 2: on request, create the rejecting collector and install it as
    // the global default; report when the installation has completed.
    let (go_tx, go_rx) = mpsc::channel::<()>();
    let (done_tx, done_rx) = mpsc::channel::<()>();
    let installer = {
        let (registered, asked, delivered) = (registered.clone(), asked.clone(), delivered.clone());
        thread::spawn(move || {
            go_rx.recv().unwrap();
            let reject = Dispatch::new(Reject {
                registered,
                asked,
                delivered,
            });
            tracing::dispatch::set_global_default(reject).expect("global default set once");
            done_tx.send(()).unwrap();
        })
    };

    // Thread 1: hits the callsite for the first time. No scoped default, and no
    // global default yet.
    let emitter = thread::spawn(move || {
        let emit = |race: bool| {
            tracing::info!(
                step = {
                    // evaluated after the enabled-check, before the dispatch
                    if race {
                        go_tx.send(()).unwrap();
                        done_rx.recv().unwrap();
                    }
                    1
                },
                "hello"
            );
        };
        emit(true);
        // once things have settled the same callsite is filtered correctly
        emit(false);
    });

    emitter.join().unwrap();
    installer.join().unwrap();
    drop(accept);

    let registered = registered.load(Ordering::SeqCst);
    let asked = asked.load(Ordering::SeqCst);
    let delivered = delivered.load(Ordering::SeqCst);
    println!(
        "rejecting collector: register_callsite calls = {}, enabled calls = {}, events delivered = {}",
        registered, asked, delivered
    );
    assert!(
        registered >= 1,
        "sanity: the callsite was offered to the rejecting collector (it answered `never`)"
    );
    assert_eq!(
        delivered, 0,
        "C04 clause violated: \"during the race an emission is never delivered to a collector \
         whose filter rejects it\" -- the collector answered Interest::never() for the callsite \
         and enabled() == false, yet {} event(s) were delivered to it (its filter was asked \
         {} time(s), only by the later, quiescent emission)",
        delivered, asked
    );
}
