//! C04 audit demonstration (std).
//!
//! Clause: "no thread deadlocks or panics".
//!
//! `tracing/tests/register_callsite_doesnt_deadlock.rs` and
//! `tracing/tests/rebuild_interest_doesnt_deadlock.rs` establish that a
//! collector may emit an event from inside `register_callsite` (the
//! `EvilCollector` below is copied from those tests). That only works as long
//! as the event's own callsite has been registered *before* the registry's
//! write lock is taken: `Dispatch::new` -> `callsite::register_dispatch` holds
//! `REGISTRY.dispatchers.write()` while it calls `register_callsite` for every
//! known callsite, and a first hit of a callsite in there goes to
//! `callsite::register`, which calls `REGISTRY.dispatchers.read()` on the same
//! thread -> self-deadlock.
//!
//! History: thread 1 hits a callsite for the first time (while any collector
//! is live), then thread 2 creates a `Dispatch` for the `EvilCollector`.
use std::{sync::mpsc, thread, time::Duration};
use tracing::{
    collect::{Collect, Interest},
    metadata::Metadata,
    span, Dispatch, Event,
};

pub struct EvilCollector;

impl Collect for EvilCollector {
    fn register_callsite(&self, meta: &'static Metadata<'static>) -> Interest {
        tracing::info!(?meta, "registered a callsite");
        Interest::always()
    }

    fn enabled(&self, _: &Metadata<'_>) -> bool {
        true
    }
    fn new_span(&self, _: &span::Attributes<'_>) -> span::Id {
        span::Id::from_u64(1)
    }
    fn record(&self, _: &span::Id, _: &span::Record<'_>) {}
    fn record_follows_from(&self, _: &span::Id, _: &span::Id) {}
    fn event(&self, _: &Event<'_>) {}
    fn enter(&self, _: &span::Id) {}
    fn exit(&self, _: &span::Id) {}
    fn current_span(&self) -> tracing_core::span::Current {
        unimplemented!()
    }
}

/// An unremarkable collector that is live while the first callsite is hit.
pub struct PlainCollector;

impl Collect for PlainCollector {
    fn enabled(&self, _: &Metadata<'_>) -> bool {
        true
    }
    fn new_span(&self, _: &span::Attributes<'_>) -> span::Id {
        span::Id::from_u64(1)
    }
    fn record(&self, _: &span::Id, _: &span::Record<'_>) {}
    fn record_follows_from(&self, _: &span::Id, _: &span::Id) {}
    fn event(&self, _: &Event<'_>) {}
    fn enter(&self, _: &span::Id) {}
    fn exit(&self, _: &span::Id) {}
    fn current_span(&self) -> tracing_core::span::Current {
        unimplemented!()
    }
}

#[test]
fn creating_a_dispatch_after_a_first_hit_doesnt_deadlock() {
    let plain = Dispatch::new(PlainCollector);

    // thread 1: first hit of a callsite.
    let plain2 = plain.clone();
    thread::spawn(move || {
        tracing::dispatch::with_default(&plain2, || tracing::info!("hello world!"));
    })
    .join()
    .unwrap();

    // thread 2: create (and install) a collector that emits an event from
    // `register_callsite`, exactly like the collector in
    // `register_callsite_doesnt_deadlock.rs`.
    let (tx, didnt_hang) = mpsc::channel();
    let _th = thread::spawn(move || {
        let evil = Dispatch::new(EvilCollector);
        let _guard = tracing::dispatch::set_default(&evil);
        tracing::info!("hello again!");
        tx.send(()).unwrap();
    });

    let res = didnt_hang.recv_timeout(Duration::from_secs(10));
    assert!(
        res.is_ok(),
        "C04 clause violated: \"no thread deadlocks\" -- Dispatch::new(EvilCollector) did not \
         return within 10 s: register_dispatch holds REGISTRY.dispatchers.write() while \
         EvilCollector::register_callsite hits its own event callsite for the first time, and \
         callsite::register then blocks in REGISTRY.dispatchers.read() on the same thread \
         ({:?})",
        res
    );
}
