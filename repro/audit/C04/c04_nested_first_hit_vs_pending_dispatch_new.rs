//! C04 audit demonstration (std), two-thread variant of
//! `c04_dispatch_new_deadlocks_on_nested_first_hit.rs`.
//!
//! Clause: "no thread deadlocks or panics".
//!
//! Thread 1 hits a callsite for the first time: `callsite::register` holds
//! `REGISTRY.dispatchers.read()` while it calls `register_callsite` on the
//! (global default) collector. That collector emits an event from
//! `register_callsite` (as the `EvilCollector` of
//! `register_callsite_doesnt_deadlock.rs` does); the event's callsite is hit
//! for the first time too, so `callsite::register` takes the read lock
//! recursively. If thread 2 has called `Dispatch::new` in between, a writer is
//! queued on the lock, the recursive `read()` queues behind the writer, and the
//! writer waits for thread 1's outer read guard: both threads hang forever.
use std::{
    sync::{
        atomic::{AtomicBool, Ordering},
        mpsc, Mutex,
    },
    thread,
    time::Duration,
};
use tracing::{
    collect::{self, Collect, Interest},
    metadata::Metadata,
    span, Dispatch, Event,
};

static ARMED: AtomicBool = AtomicBool::new(false);
static START_WRITER: Mutex<Option<mpsc::Sender<()>>> = Mutex::new(None);

pub struct EvilCollector;

impl Collect for EvilCollector {
    fn register_callsite(&self, meta: &'static Metadata<'static>) -> Interest {
        if ARMED.swap(false, Ordering::SeqCst) {
            // Thread 1 is inside `callsite::register` (read lock held). Let
            // thread 2 call `Dispatch::new` now and give it time to queue up
            // for the write lock.
            START_WRITER.lock().unwrap().take().unwrap().send(()).unwrap();
            thread::sleep(Duration::from_millis(500));
        }
        tracing::info!(?meta, "registered a callsite");
        Interest::always()
    }

    fn enabled(&self, _: &Metadata<'_>) -> bool {
        true
    }
    fn new_span(&self, _: &span::Attributes<'_>) -> span::Id {
        span::Id::from_u64(1)
    }
    fn record(&self, _: &span::Id, _: &span::Record<'_>) {}
    fn record_follows_from(&self, _: &span::Id, _: &span::Id) {}
    fn event(&self, _: &Event<'_>) {}
    fn enter(&self, _: &span::Id) {}
    fn exit(&self, _: &span::Id) {}
    fn current_span(&self) -> tracing_core::span::Current {
        unimplemented!()
    }
}

pub struct PlainCollector;

impl Collect for PlainCollector {
    fn enabled(&self, _: &Metadata<'_>) -> bool {
        true
    }
    fn new_span(&self, _: &span::Attributes<'_>) -> span::Id {
        span::Id::from_u64(1)
    }
    fn record(&self, _: &span::Id, _: &span::Record<'_>) {}
    fn record_follows_from(&self, _: &span::Id, _: &span::Id) {}
    fn event(&self, _: &Event<'_>) {}
    fn enter(&self, _: &span::Id) {}
    fn exit(&self, _: &span::Id) {}
    fn current_span(&self) -> tracing_core::span::Current {
        unimplemented!()
    }
}

#[test]
fn first_hit_racing_with_dispatch_new_doesnt_deadlock() {
    // no callsite exists yet, so this cannot hang.
    collect::set_global_default(EvilCollector).unwrap();

    let (start_tx, start_rx) = mpsc::channel();
    *START_WRITER.lock().unwrap() = Some(start_tx);
    ARMED.store(true, Ordering::SeqCst);

    let (tx1, first_hit_done) = mpsc::channel();
    let (tx2, dispatch_new_done) = mpsc::channel();

    // thread 1: first hit of a callsite
    let _t1 = thread::spawn(move || {
        tracing::info!("hello world!");
        tx1.send(()).unwrap();
    });
    // thread 2: creates a collector while thread 1 is registering
    let _t2 = thread::spawn(move || {
        start_rx.recv().unwrap();
        let d = Dispatch::new(PlainCollector);
        drop(d);
        tx2.send(()).unwrap();
    });

    let r1 = first_hit_done.recv_timeout(Duration::from_secs(10));
    let r2 = dispatch_new_done.recv_timeout(Duration::from_secs(1));
    assert!(
        r1.is_ok() && r2.is_ok(),
        "C04 clause violated: \"no thread deadlocks\" -- first hit of a callsite finished: {:?}, \
         concurrent Dispatch::new finished: {:?}; the nested first hit inside \
         register_callsite re-takes REGISTRY.dispatchers.read() while Dispatch::new is queued \
         for the write lock",
        r1,
        r2
    );
}
