//! C11 audit demonstration 1.
//!
//! Clause violated: "formatting a parsed filter and parsing it again yields
//! the same filter" (quantifier item: "field value matchers for ... float").
//!
//! `ValueMatch::F64` is displayed with `f64`'s `Display` impl, which prints
//! `1.0` as `1`. Re-parsing `x=1` yields `ValueMatch::U64(1)`, which is a
//! different matcher: it no longer matches a span whose field was recorded as
//! the `f64` value `1.0`. So Display -> FromStr changes both the parsed
//! representation and the filtering behaviour.
#![cfg(feature = "env-filter")]

use std::sync::{Arc, Mutex};
use tracing::{collect::with_default, field::Visit};
use tracing_subscriber::{
    filter::{Directive, EnvFilter},
    prelude::*,
    registry::Registry,
    subscribe::{Context, Subscribe},
};

#[derive(Clone, Default)]
struct Rec(Arc<Mutex<Vec<u64>>>);

struct IdVisitor(Option<u64>);
impl Visit for IdVisitor {
    fn record_u64(&mut self, f: &tracing::field::Field, v: u64) {
        if f.name() == "id" {
            self.0 = Some(v);
        }
    }
    fn record_debug(&mut self, _: &tracing::field::Field, _: &dyn std::fmt::Debug) {}
}

impl<C: tracing::Collect> Subscribe<C> for Rec {
    fn on_event(&self, ev: &tracing::Event<'_>, _: Context<'_, C>) {
        let mut v = IdVisitor(None);
        ev.record(&mut v);
        self.0.lock().unwrap().push(v.0.unwrap_or(u64::MAX));
    }
}

/// Runs one fixed history (a span `span{x = 1.0_f64}` is entered and a DEBUG
/// event is emitted inside it) against `filter` and returns the ids of the
/// events that got through.
fn run(filter: EnvFilter) -> Vec<u64> {
    let rec = Rec::default();
    let collector = Registry::default().with(rec.clone()).with(filter);
    with_default(collector, || {
        let span = tracing::info_span!("span", x = 1.0f64);
        let _e = span.enter();
        tracing::debug!(id = 1u64, "inside span{{x=1.0}}");
    });
    let got = rec.0.lock().unwrap().clone();
    got
}

#[test]
fn directive_with_float_value_roundtrips() {
    let original: Directive = "[span{x=1.0}]=debug".parse().expect("parses");
    let formatted = original.to_string();
    let reparsed: Directive = formatted
        .parse()
        .expect("formatted directive should parse again");
    assert_eq!(
        original, reparsed,
        "C11 round-trip clause violated: `[span{{x=1.0}}]=debug` was formatted as `{}`, \
         which parses to a different directive (float matcher became an integer matcher)",
        formatted
    );
}

#[test]
fn filter_with_float_value_behaves_the_same_after_roundtrip() {
    let original: EnvFilter = "[span{x=1.0}]=debug".parse().expect("parses");
    let formatted = original.to_string();
    let reparsed: EnvFilter = formatted
        .parse()
        .expect("formatted filter should parse again");

    let before = run(original);
    let after = run(reparsed);
    assert_eq!(
        before, after,
        "C11 round-trip clause violated: the filter parsed from `[span{{x=1.0}}]=debug` lets the \
         DEBUG event inside span{{x=1.0}} through (events seen: {:?}), but the filter parsed from \
         its own Display output `{}` does not (events seen: {:?})",
        before, formatted, after
    );
}
