//! C11 audit demonstration 3.
//!
//! Clause violated: "Span-scoped directives raise the enabled level exactly
//! while a matching span (by name and recorded field values) is entered on
//! the thread" (quantifier items: "field-name lists", "field value
//! matchers"), and the round-trip clause for the same directives.
//!
//! `Directive::parse` (filter/env/directive.rs) splits the `{...}` part with
//! `FIELD_FILTER_RE.find_iter(..)` and hands **the whole regex match** — which
//! includes the trailing separator `,` / `, ` that the regex consumes — to
//! `field::Match::parse`, instead of capture group 1. For every field but the
//! last one, the separator therefore ends up inside the field name
//! (`[span{a,b}]` -> names `"a,"` and `"b"`) or inside the value pattern
//! (`[span{a=1,b=2}]` -> `a` must match the *regex* `1,`, `b` must equal 2).
//! Such a directive can never match any span, so it never raises the level.
//!
//! `EnvFilter`'s own string constructors split the input on `,` first, so the
//! list form is only reachable through the public, documented route
//! `"...".parse::<Directive>()` + `EnvFilter::add_directive`.
#![cfg(feature = "env-filter")]

use std::sync::{Arc, Mutex};
use tracing::collect::with_default;
use tracing_subscriber::{
    filter::{Directive, EnvFilter},
    prelude::*,
    registry::Registry,
    subscribe::{Context, Subscribe},
};

#[derive(Clone, Default)]
struct Rec(Arc<Mutex<Vec<String>>>);

impl<C: tracing::Collect> Subscribe<C> for Rec {
    fn on_event(&self, ev: &tracing::Event<'_>, _: Context<'_, C>) {
        self.0
            .lock()
            .unwrap()
            .push(format!("{}", ev.metadata().level()));
    }
}

/// Enters `span{a = 1, b = 2}` and emits one DEBUG event inside it.
fn debug_event_inside_matching_span(filter: EnvFilter) -> Vec<String> {
    let rec = Rec::default();
    let collector = Registry::default().with(rec.clone()).with(filter);
    with_default(collector, || {
        let span = tracing::info_span!("span", a = 1u64, b = 2u64);
        let _e = span.enter();
        tracing::debug!("inside span{{a=1,b=2}}");
    });
    let got = rec.0.lock().unwrap().clone();
    got
}

#[test]
fn single_field_name_directive_works_as_a_baseline() {
    // sanity check that the harness is right: this one passes.
    let d: Directive = "[span{a}]=debug".parse().unwrap();
    let seen = debug_event_inside_matching_span(EnvFilter::default().add_directive(d));
    assert_eq!(seen, vec!["DEBUG".to_string()]);
}

#[test]
fn field_name_list_directive_raises_level_inside_matching_span() {
    let d: Directive = "[span{a,b}]=debug".parse().expect("list form parses");
    let shown = d.to_string();
    let seen = debug_event_inside_matching_span(EnvFilter::default().add_directive(d));
    assert_eq!(
        seen,
        vec!["DEBUG".to_string()],
        "C11 span-scoped clause violated: `[span{{a,b}}]=debug` (re-displayed by the library as \
         `{}`) did not raise the level to DEBUG while span{{a=1,b=2}} was entered; events seen: {:?}",
        shown,
        seen
    );
}

#[test]
fn field_value_list_directive_raises_level_inside_matching_span() {
    let d: Directive = "[span{a=1,b=2}]=debug".parse().expect("list form parses");
    let shown = d.to_string();
    let seen = debug_event_inside_matching_span(EnvFilter::default().add_directive(d));
    assert_eq!(
        seen,
        vec!["DEBUG".to_string()],
        "C11 span-scoped clause violated: `[span{{a=1,b=2}}]=debug` (re-displayed by the library \
         as `{}`) did not raise the level to DEBUG while span{{a=1,b=2}} was entered; events seen: {:?}",
        shown,
        seen
    );
}

#[test]
fn field_list_directive_roundtrips() {
    let d: Directive = "[span{a,b}]=debug".parse().expect("list form parses");
    let shown = d.to_string();
    assert_eq!(
        shown, "[span{a,b}]=debug",
        "C11 round-trip clause violated: the separator leaked into the first field name"
    );
}
