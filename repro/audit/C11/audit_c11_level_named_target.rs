//! C11 audit: supplementary demonstration (over the 3-finding limit; listed under "unconfirmed" in findings.json although it reproduces).
//!
//! Clauses violated: "Targets and EnvFilter agree on every directive string
//! both accept" and, for `EnvFilter` on its own, "[a directive set enables]
//! nothing when no directive matches [the metadata's target]".
//!
//! In `Directive::parse` (filter/env/directive.rs) the `target` capture is
//! discarded whenever the captured text happens to parse as a `LevelFilter`:
//!
//! ```ignore
//! let target = caps.name("target").and_then(|c| {
//!     let s = c.as_str();
//!     if s.parse::<LevelFilter>().is_ok() { None } else { Some(s.to_owned()) }
//! });
//! ```
//!
//! That check is meant for the bare-level form, but it is also applied to the
//! `target=level` form. So `warn=info` (target `warn`, e.g. a crate or an
//! explicit `target: "warn"`) is parsed by `EnvFilter` as the *global*
//! directive `info`, while `Targets` parses the same string as
//! `{ target: "warn", level: INFO }`.
#![cfg(feature = "env-filter")]

use std::sync::{Arc, Mutex};
use tracing::collect::with_default;
use tracing_subscriber::{
    filter::{EnvFilter, Targets},
    prelude::*,
    registry::Registry,
    subscribe::{Context, Layered, Subscribe},
};

#[derive(Clone, Default)]
struct Rec(Arc<Mutex<Vec<String>>>);

impl<C: tracing::Collect> Subscribe<C> for Rec {
    fn on_event(&self, ev: &tracing::Event<'_>, _: Context<'_, C>) {
        self.0.lock().unwrap().push(format!(
            "{}@{}",
            ev.metadata().target(),
            ev.metadata().level()
        ));
    }
}

/// Emits the same three events under `filter` and reports which got through.
fn run<F>(filter: F) -> Vec<String>
where
    F: Subscribe<Layered<Rec, Registry>> + Send + Sync + 'static,
{
    let rec = Rec::default();
    let collector = Registry::default().with(rec.clone()).with(filter);
    with_default(collector, || {
        tracing::info!(target: "other", "no directive names this target");
        tracing::info!(target: "warn", "target `warn` at INFO");
        tracing::debug!(target: "warn", "target `warn` at DEBUG");
    });
    let got = rec.0.lock().unwrap().clone();
    got
}

const DIRECTIVES: &[&str] = &["warn=info", "error=debug", "Trace=warn", "5=info"];

#[test]
fn targets_and_env_filter_agree_on_level_named_target() {
    for s in DIRECTIVES {
        let targets: Targets = s.parse().expect("Targets accepts the string");
        let env: EnvFilter = s.parse().expect("EnvFilter accepts the string");

        let by_targets = run(targets.clone());
        let by_env = run(env);
        assert_eq!(
            by_targets, by_env,
            "C11 `Targets and EnvFilter agree on every directive string both accept` violated \
             for `{}`: Targets (parsed as `{}`) enabled {:?}, EnvFilter enabled {:?}",
            s, targets, by_targets, by_env
        );
    }
}

#[test]
fn env_filter_enables_nothing_for_unmatched_target() {
    let env: EnvFilter = "warn=info".parse().expect("EnvFilter accepts the string");
    let shown = env.to_string();
    let seen = run(env);
    assert!(
        !seen.iter().any(|e| e.starts_with("other@")),
        "C11 `nothing when no directive matches` violated: the only directive is `warn=info` \
         (target `warn`), yet EnvFilter (which re-displays itself as `{}`) enabled an event \
         whose target is `other`: {:?}",
        shown,
        seen
    );
}
