//! C11 audit demonstration 2.
//!
//! Clause violated: "would_enable agrees with actual filtering" (quantifier
//! item: "field-name lists").
//!
//! `Targets::from_str` accepts the `target[{field,...}]=level` form and stores
//! the field names in the `StaticDirective`. Actual filtering
//! (`DirectiveSet::enabled` -> `StaticDirective::cares_about`) honours such a
//! directive: it applies to every *span* with a matching target (field names
//! are only checked for events) and to every event that has the named fields.
//! `Targets::would_enable` (`DirectiveSet::target_enabled` ->
//! `StaticDirective::cares_about_target`) instead *skips* every directive that
//! has field names, on the (wrong) assumption, stated in a comment, that
//! "`Targets` only produces `StaticDirective`'s with NO fields".
//!
//! Needs no cargo features beyond the defaults.

use std::sync::{Arc, Mutex};
use tracing::{collect::with_default, Level};
use tracing_subscriber::{
    filter::Targets,
    prelude::*,
    registry::Registry,
    subscribe::{Context, Subscribe},
};

#[derive(Clone, Default)]
struct Rec(Arc<Mutex<Vec<String>>>);

impl<C: tracing::Collect> Subscribe<C> for Rec {
    fn on_new_span(
        &self,
        attrs: &tracing::span::Attributes<'_>,
        _: &tracing::span::Id,
        _: Context<'_, C>,
    ) {
        self.0
            .lock()
            .unwrap()
            .push(format!("span:{}", attrs.metadata().name()));
    }
    fn on_event(&self, ev: &tracing::Event<'_>, _: Context<'_, C>) {
        let fields = ev
            .metadata()
            .fields()
            .iter()
            .map(|f| f.name().to_string())
            .collect::<Vec<_>>()
            .join("+");
        self.0.lock().unwrap().push(format!("event:{}", fields));
    }
}

#[test]
fn would_enable_agrees_with_filtering_for_field_list_directive() {
    let filter: Targets = "foo[{bar}]=trace"
        .parse()
        .expect("`Targets` accepts the field-name list form");

    let rec = Rec::default();
    let collector = Registry::default().with(rec.clone()).with(filter.clone());
    with_default(collector, || {
        // a TRACE span with target `foo` (no fields at all)
        let _span = tracing::trace_span!(target: "foo", "a_span");
        // a TRACE event with target `foo` that has the field `bar`
        tracing::trace!(target: "foo", bar = 1);
    });
    let seen = rec.0.lock().unwrap().clone();
    let actually_enabled_something = !seen.is_empty();
    let would = filter.would_enable("foo", &Level::TRACE);

    assert_eq!(
        would, actually_enabled_something,
        "C11 `would_enable agrees with actual filtering` violated: for the filter `{}`, \
         would_enable(\"foo\", TRACE) = {}, but actual filtering with target `foo` at TRACE \
         let these through: {:?}",
        filter, would, seen
    );
}

#[test]
fn would_enable_picks_the_same_most_specific_directive_as_filtering() {
    // The most specific directive for target `foo` is `foo[{bar}]=off` (same
    // target, more field constraints). Actual filtering uses it for every span
    // with target `foo`, so those spans are disabled; would_enable skips it
    // and answers from the less specific `foo=trace`.
    let filter: Targets = "foo=trace,foo[{bar}]=off".parse().expect("parses");

    let rec = Rec::default();
    let collector = Registry::default().with(rec.clone()).with(filter.clone());
    let span_enabled = with_default(collector, || {
        let span = tracing::info_span!(target: "foo", "a_span", bar = 1);
        !span.is_disabled()
    });
    let would = filter.would_enable("foo", &Level::INFO);
    assert_eq!(
        would, span_enabled,
        "C11 `would_enable agrees with actual filtering` violated: for the filter `{}`, \
         would_enable(\"foo\", INFO) = {}, but an INFO span with target `foo` and field `bar` \
         was actually enabled = {}",
        filter, would, span_enabled
    );
}
