#![cfg(feature = "env-filter")]
use std::sync::{Arc, Mutex};
use tracing::{collect::with_default, field::Visit, Level};
use tracing_subscriber::{
    filter::{Directive, EnvFilter, LevelFilter, Targets},
    prelude::*,
    registry::Registry,
    subscribe::{Context, Subscribe},
};

#[derive(Clone, Default)]
struct Rec(Arc<Mutex<Vec<u64>>>);
struct V(Option<u64>);
impl Visit for V {
    fn record_u64(&mut self, f: &tracing::field::Field, v: u64) {
        if f.name() == "id" {
            self.0 = Some(v);
        }
    }
    fn record_debug(&mut self, _: &tracing::field::Field, _: &dyn std::fmt::Debug) {}
}
impl<C: tracing::Collect> Subscribe<C> for Rec {
    fn on_event(&self, ev: &tracing::Event<'_>, _: Context<'_, C>) {
        let mut v = V(None);
        ev.record(&mut v);
        self.0.lock().unwrap().push(v.0.unwrap_or(999));
    }
}
impl Rec {
    fn got(&self) -> Vec<u64> {
        self.0.lock().unwrap().clone()
    }
}

#[test]
fn f64_roundtrip() {
    let d: Directive = "[span{x=1.0}]=debug".parse().unwrap();
    let s = d.to_string();
    let d2: Directive = s.parse().unwrap();
    println!("{} -> {:?} / {:?}", s, d, d2);
    assert_eq!(d, d2);
}

#[test]
fn f64_roundtrip_behaviour() {
    fn run(f: EnvFilter) -> Vec<u64> {
        let rec = Rec::default();
        let c = Registry::default().with(rec.clone()).with(f);
        with_default(c, || {
            let s = tracing::info_span!("span", x = 1.0f64);
            let _e = s.enter();
            tracing::debug!(id = 1u64);
        });
        rec.got()
    }
    let f1: EnvFilter = "[span{x=1.0}]=debug".parse().unwrap();
    let f2: EnvFilter = f1.to_string().parse().unwrap();
    let a = run(f1);
    let b = run(f2);
    assert_eq!(a, b);
}

#[test]
fn debug_dup_panics() {
    let r = std::panic::catch_unwind(|| {
        EnvFilter::builder()
            .with_regex(false)
            .parse("[span{x=abc}]=debug,[span{x=abc}]=info")
            .map(|f| f.to_string())
    });
    println!("{:?}", r);
    assert!(r.is_ok());
}

#[test]
fn would_enable_fields() {
    let t: Targets = "foo[{bar}]=trace".parse().unwrap();
    let rec = Rec::default();
    let c = Registry::default().with(rec.clone()).with(t.clone());
    with_default(c, || {
        tracing::trace!(target: "foo", bar = 1, id = 1u64);
        tracing::trace!(target: "foo", id = 2u64);
    });
    println!("{:?} would_enable {}", rec.got(), t.would_enable("foo", &Level::TRACE));
    assert_eq!(!rec.got().is_empty(), t.would_enable("foo", &Level::TRACE));
}

#[test]
fn warn_eq_info() {
    let t: Targets = "warn=info".parse().unwrap();
    let e: EnvFilter = "warn=info".parse().unwrap();
    println!("{} / {}", t, e);
    fn run<S: Subscribe<tracing_subscriber::subscribe::Layered<Rec, Registry>> + Send + Sync + 'static>(
        f: S,
    ) -> Vec<u64> {
        let rec = Rec::default();
        let c = Registry::default().with(rec.clone()).with(f);
        with_default(c, || {
            tracing::info!(target: "other", id = 1u64);
            tracing::info!(target: "warn", id = 2u64);
            tracing::debug!(target: "warn", id = 3u64);
        });
        rec.got()
    }
    assert_eq!(run(t), run(e));
}

#[test]
fn record_while_entered() {
    let f: EnvFilter = "[span{x=1}]=debug".parse().unwrap();
    let rec = Rec::default();
    let c = Registry::default().with(rec.clone()).with(f);
    with_default(c, || {
        let s = tracing::info_span!("span", x = tracing::field::Empty);
        let _e = s.enter();
        tracing::debug!(id = 1u64);
        s.record("x", 1u64);
        tracing::debug!(id = 2u64);
    });
    assert_eq!(rec.got(), vec![2]);
}

#[test]
fn add_directive_vs_parse() {
    fn run(f: EnvFilter) -> Vec<u64> {
        let rec = Rec::default();
        let c = Registry::default().with(rec.clone()).with(f);
        with_default(c, || {
            let s = tracing::info_span!("span", bar = 1);
            let _e = s.enter();
            tracing::debug!(id = 1u64);
        });
        rec.got()
    }
    let a = run("[{bar}]=debug".parse().unwrap());
    let b = run(EnvFilter::default().add_directive("[{bar}]=debug".parse().unwrap()));
    assert_eq!(a, b);
}

#[test]
fn targets_dup_roundtrip() {
    let t: Targets = "foo=trace,foo=info".parse().unwrap();
    let t2: Targets = t.to_string().parse().unwrap();
    assert_eq!(t, t2);
}

#[test]
fn inf_matcher() {
    let f: EnvFilter = "[span{x=inf}]=debug".parse().unwrap();
    let rec = Rec::default();
    let c = Registry::default().with(rec.clone()).with(f);
    with_default(c, || {
        let s = tracing::info_span!("span", x = f64::INFINITY);
        let _e = s.enter();
        tracing::debug!(id = 1u64);
    });
    assert_eq!(rec.got(), vec![1]);
}

#[test]
fn interest_vs_enabled() {
    use tracing::Collect;
    let f: EnvFilter = "[span]=debug".parse().unwrap();
    let rec = Rec::default();
    let c = Registry::default().with(rec.clone()).with(f);
    let _ = LevelFilter::OFF;
    with_default(c, || {
        let s = tracing::trace_span!("span");
        let _e = s.enter();
        tracing::debug!(id = 1u64);
        tracing::dispatch::get_default(|d| {
            let meta = s.metadata().unwrap();
            println!("enabled(meta) = {}", d.enabled(meta));
        });
    });
    println!("{:?}", rec.got());
}

#[test]
fn span_itself_level() {
    let f: EnvFilter = "[span]=error,other=trace".parse().unwrap();
    let rec = Rec::default();
    let c = Registry::default().with(rec.clone()).with(f);
    with_default(c, || {
        let s = tracing::debug_span!("span");
        println!("debug span `span` disabled? {}", s.is_disabled());
        let s2 = tracing::debug_span!("nope");
        println!("debug span `nope` disabled? {}", s2.is_disabled());
        assert!(s.is_disabled());
    });
}

#[test]
fn multi_field_directive_roundtrip() {
    let d: Directive = "[span{a=1,b=2}]=debug".parse().unwrap();
    let f = EnvFilter::default().add_directive(d);
    let shown = f.to_string();
    println!("shown = {}", shown);
    let strict = shown.parse::<EnvFilter>();
    println!("strict reparse: {:?}", strict.as_ref().map(|f| f.to_string()));
    let lossy = EnvFilter::new(&shown).to_string();
    println!("lossy reparse: {}", lossy);
    assert_eq!(shown, lossy);
}

#[test]
fn trailing_eq_disagree() {
    let t: Targets = "foo=".parse().unwrap();
    let e: EnvFilter = "foo=".parse().unwrap();
    assert_eq!(t.to_string(), e.to_string());
}
