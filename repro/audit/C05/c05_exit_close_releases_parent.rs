//! C05 demonstration: a span whose last reference is released by `exit`
//! (its handles were dropped while it was still entered) never releases its
//! parent, although the thread's default collector IS the owning collector the
//! whole time.
//!
//! `Registry::exit` calls `dispatch::get_default(|d| d.try_close(id))`. The
//! close of the child (`on_close`, `CloseGuard::drop`, `Pool::clear`,
//! `DataInner::clear`) therefore runs *inside* a `get_default` closure, and
//! `DataInner::clear` calls `dispatch::get_default` again to release the
//! parent. A nested `get_default` (with a scoped default set) is handed
//! `Dispatch::none()`, so the parent's reference is "released" on the no-op
//! collector and is leaked: the parent never closes.
#![cfg(all(feature = "registry", feature = "std"))]

use std::sync::{Arc, Mutex};
use tracing::{Collect, Dispatch};
use tracing_subscriber::{
    prelude::*,
    registry::{LookupSpan, Registry},
    subscribe::{Context, Subscribe},
};

#[derive(Clone, Default)]
struct CloseLog(Arc<Mutex<Vec<&'static str>>>);

impl CloseLog {
    fn get(&self) -> Vec<&'static str> {
        self.0.lock().unwrap().clone()
    }
}

impl<C> Subscribe<C> for CloseLog
where
    C: Collect + for<'a> LookupSpan<'a>,
{
    fn on_close(&self, id: tracing::span::Id, ctx: Context<'_, C>) {
        let name = ctx
            .span(&id)
            .map(|s| s.name())
            .unwrap_or("<data not readable in on_close>");
        self.0.lock().unwrap().push(name);
    }
}

/// Control: the very same history, except that the child's last reference is
/// released by dropping the handle (after exit) instead of by the exit.
#[test]
fn control_child_closed_by_drop_releases_parent() {
    let log = CloseLog::default();
    let dispatch = Dispatch::new(Registry::default().with(log.clone()));

    tracing::dispatch::with_default(&dispatch, || {
        let parent = tracing::info_span!("parent");
        let child = tracing::info_span!(parent: &parent, "child");
        let child_id = child.id().unwrap();

        dispatch.enter(&child_id);
        drop(parent);
        dispatch.exit(&child_id);
        drop(child);

        assert_eq!(log.get(), vec!["child", "parent"]);
    });
}

#[test]
fn child_closed_by_exit_releases_parent() {
    let log = CloseLog::default();
    let dispatch = Dispatch::new(Registry::default().with(log.clone()));

    // The owning collector is the thread's default for the whole history.
    tracing::dispatch::with_default(&dispatch, || {
        let parent = tracing::info_span!("parent");
        let child = tracing::info_span!(parent: &parent, "child");
        let parent_id = parent.id().unwrap();
        let child_id = child.id().unwrap();

        // enter the child, then drop every handle while it is still entered,
        // parent first.
        dispatch.enter(&child_id);
        drop(parent);
        drop(child);
        assert_eq!(
            log.get(),
            Vec::<&str>::new(),
            "nothing may close while the child is still entered"
        );

        // leaving the child releases its last reference: the child closes, and
        // since it was the parent's last child (and the parent has no handles
        // left and is not entered) the parent must close right after it.
        dispatch.exit(&child_id);

        let registry = dispatch.downcast_ref::<Registry>().unwrap();
        let parent_still_stored = registry.span(&parent_id).is_some();
        assert_eq!(
            log.get(),
            vec!["child", "parent"],
            "C05 violated (clause: a span closes at the moment its last handle is dropped, it is \
             not entered and all of its children have closed): the child was closed by `exit`, \
             the parent has no handles, is not entered and has no open children, but it was never \
             reported closed (parent still stored in the registry: {})",
            parent_still_stored,
        );
    });
}
