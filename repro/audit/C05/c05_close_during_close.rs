//! C05 demonstration: a span whose last handle is dropped while the same
//! thread is in the middle of handling another span's close is reported closed
//! but is never removed from the registry, and never releases its parent.
//!
//! `Layered::try_close` creates a `CloseGuard` which bumps the thread-local
//! `CLOSE_COUNT`; `CloseGuard::drop` only removes the span when the counter it
//! read was 1. The counter does not distinguish "another `Layered` of the same
//! stack handling the same close" from "a different span closing inside this
//! close": for the nested close every guard reads a count > 1, so nobody ever
//! calls `Pool::clear` for the nested span. Its slot (extensions, parent
//! reference) stays alive for ever.
#![cfg(all(feature = "registry", feature = "std"))]

use std::sync::{Arc, Mutex};
use tracing::{Collect, Dispatch, Span};
use tracing_subscriber::{
    prelude::*,
    registry::{LookupSpan, Registry},
    subscribe::{Context, Subscribe},
};

#[derive(Clone, Default)]
struct CloseLog(Arc<Mutex<Vec<&'static str>>>);

impl CloseLog {
    fn get(&self) -> Vec<&'static str> {
        self.0.lock().unwrap().clone()
    }
}

impl<C> Subscribe<C> for CloseLog
where
    C: Collect + for<'a> LookupSpan<'a>,
{
    fn on_close(&self, id: tracing::span::Id, ctx: Context<'_, C>) {
        let name = ctx
            .span(&id)
            .map(|s| s.name())
            .unwrap_or("<data not readable in on_close>");
        self.0.lock().unwrap().push(name);
    }
}

/// A handle to another span, kept in a span's extensions.
struct Linked(#[allow(dead_code)] Span);

/// Takes the `Linked` handle out of a closing span's extensions, which drops
/// that handle while the close is being handled.
struct UnlinkOnClose;

impl<C> Subscribe<C> for UnlinkOnClose
where
    C: Collect + for<'a> LookupSpan<'a>,
{
    fn on_close(&self, id: tracing::span::Id, ctx: Context<'_, C>) {
        let linked = ctx
            .span(&id)
            .and_then(|span| span.extensions_mut().remove::<Linked>());
        drop(linked);
    }
}

fn run(unlink_in_on_close: bool) -> (Vec<&'static str>, bool, bool) {
    let log = CloseLog::default();
    let dispatch = Dispatch::new(
        Registry::default()
            .with(log.clone())
            .with(unlink_in_on_close.then(|| UnlinkOnClose)),
    );

    tracing::dispatch::with_default(&dispatch, || {
        let registry = dispatch.downcast_ref::<Registry>().unwrap();

        let parent = tracing::info_span!("parent");
        let child = tracing::info_span!(parent: &parent, "child");
        let parent_id = parent.id().unwrap();
        let child_id = child.id().unwrap();
        // parent dropped before its child
        drop(parent);

        let other = tracing::info_span!(parent: None, "other");
        registry
            .span(&other.id().unwrap())
            .unwrap()
            .extensions_mut()
            .insert(Linked(child));

        // Dropping `other` closes it. The last handle to `child` is dropped
        // either while `other`'s close is being handled (by `UnlinkOnClose`),
        // or right after it, when the registry clears `other`'s extensions.
        drop(other);

        (
            log.get(),
            registry.span(&child_id).is_some(),
            registry.span(&parent_id).is_some(),
        )
    })
}

/// Control: without the layer, the handle to `child` is dropped when the
/// registry clears `other`'s extensions; everything closes and is removed.
#[test]
fn control_handle_dropped_after_the_close() {
    let (log, child_stored, parent_stored) = run(false);
    assert_eq!(log, vec!["other", "child", "parent"]);
    assert!(!child_stored);
    assert!(!parent_stored);
}

#[test]
fn handle_dropped_while_another_close_is_handled() {
    let (log, child_stored, parent_stored) = run(true);

    assert_eq!(
        &log[..2],
        &["other", "child"],
        "`child` lost its last handle and must have been reported closed"
    );
    assert!(
        !child_stored,
        "C05 violated (clause: after the close has been handled the span is gone): `child` was \
         reported closed to every layer (closes seen: {:?}) but its data is still stored in the \
         registry afterwards",
        log
    );
    assert_eq!(
        log,
        vec!["other", "child", "parent"],
        "C05 violated (clause: a span closes once its last handle is dropped and all of its \
         children have closed): `parent` never closed (still stored: {})",
        parent_stored
    );
}
