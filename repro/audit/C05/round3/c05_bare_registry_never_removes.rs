//! C05 audit demonstration (extra): a `Registry` used as the collector on its own
//! (or behind `Arc`/`Box`, i.e. any stack without a `Layered` on top) counts
//! references down to zero in `try_close`, but the only code that ever removes a
//! span is `CloseGuard::drop`, which only `Layered::try_close` creates.
#![cfg(feature = "registry")]

use std::sync::Arc;
use tracing::dispatch::{self, Dispatch};
use tracing_subscriber::{registry::LookupSpan, Registry};

#[test]
fn closed_span_is_gone_from_a_bare_registry() {
    let registry = Arc::new(Registry::default());
    let dispatch = Dispatch::new(registry.clone());
    let (parent_id, child_id) = dispatch::with_default(&dispatch, || {
        let parent = tracing::info_span!("parent");
        let child = tracing::info_span!(parent: &parent, "child");
        let ids = (parent.id().unwrap(), child.id().unwrap());
        drop(parent);
        drop(child);
        ids
    });
    let child = registry.span(&child_id).map(|s| s.name());
    let parent = registry.span(&parent_id).map(|s| s.name());
    assert!(
        child.is_none() && parent.is_none(),
        "C05 violated (\"afterwards the span is gone\" / parent closes after its last child): \
         all handles are dropped, but the registry still stores child = {:?}, parent = {:?}",
        child,
        parent
    );
}
