//! C05 audit demonstration (3).
//!
//! `DataInner::clear` empties the pooled extensions map of a closed span through
//! `RwLock::get_mut().unwrap_or_else(PoisonError::into_inner)`, but never clears
//! the lock's *poison flag*.  The `RwLock` is part of the pooled storage, so if
//! anything ever unwound while a layer held `extensions_mut()` of span A (here:
//! the documented panic of `ExtensionsMut::insert` on a duplicate type), every
//! later, unrelated span that reuses A's slot inherits A's poisoned lock: its
//! `extensions()` / `extensions_mut()` panic with "Mutex poisoned" from the very
//! first access -- state stored by the old span is visible to the new one.
#![cfg(all(feature = "registry", not(feature = "parking_lot")))]

use std::panic::{catch_unwind, AssertUnwindSafe};
use tracing::dispatch::{self, Dispatch};
use tracing_core::span::{Attributes, Id, Record};
use tracing_subscriber::{
    prelude::*, registry::LookupSpan, subscribe::Context, Registry, Subscribe,
};

struct Recorded;

struct L;
impl<C> Subscribe<C> for L
where
    C: tracing::Collect + for<'a> LookupSpan<'a>,
{
    fn on_new_span(&self, _: &Attributes<'_>, id: &Id, ctx: Context<'_, C>) {
        // every span gets its extensions looked at once, as e.g. the fmt layer does
        let span = ctx.span(id).unwrap();
        let _ = span.extensions().get::<Recorded>().is_some();
    }
    fn on_record(&self, id: &Id, _: &Record<'_>, ctx: Context<'_, C>) {
        let span = ctx.span(id).unwrap();
        // documented to panic if `Recorded` is already present
        span.extensions_mut().insert(Recorded);
    }
}

#[test]
fn a_new_span_does_not_inherit_state_from_the_span_that_used_its_slot_before() {
    let dispatch = Dispatch::new(Registry::default().with(L));
    dispatch::with_default(&dispatch, || {
        // span A: the second `record` makes the layer panic while it holds A's
        // extensions write lock; the application catches that panic.
        let a = tracing::info_span!("a", x = tracing::field::Empty);
        let a_id = a.id().unwrap();
        a.record("x", 1);
        let res = catch_unwind(AssertUnwindSafe(|| a.record("x", 2)));
        assert!(res.is_err());
        // A closes normally and is removed from the registry.
        drop(a);
        let registry = dispatch.downcast_ref::<Registry>().unwrap();
        assert!(registry.span(&a_id).is_none(), "A is gone");

        // A brand-new span B is created; the registry hands it A's old storage.
        let res = catch_unwind(AssertUnwindSafe(|| tracing::info_span!("b")));
        let b = match res {
            Ok(b) => b,
            Err(e) => panic!(
                "C05 violated (\"none of its stored data is ever visible to a later span that \
                 reuses its storage\"): creating the unrelated span `b` panicked with {:?}, \
                 because `b` inherited the poisoned extensions lock of the closed span `a`",
                e.downcast_ref::<String>()
            ),
        };
        drop(b);
    });
}
