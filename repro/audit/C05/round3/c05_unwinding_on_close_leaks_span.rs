//! C05 audit demonstration (2).
//!
//! Stack: Registry + two layers (`Layered<Outer, Layered<Inner, Registry>>`).
//! History: create P; create C (child of P); drop P's handle; drop C's handle,
//! where the *inner* layer's `on_close(C)` unwinds (the panic is caught by the
//! application, e.g. a thread-pool / `catch_unwind` boundary).
//!
//! `Layered::try_close` creates its `CloseGuard` with `is_closing == false` and
//! only flips it after `self.inner.try_close()` has *returned* `true`.  When the
//! inner `Layered` unwinds out of `on_close`, its own guard sees CLOSE_COUNT == 2
//! and does not remove the span; the outer guard sees CLOSE_COUNT == 1 but
//! `is_closing == false`, so it does not remove the span either.  The span has
//! reference count 0, has been reported closed, and is never removed: its data
//! stays readable forever and the reference it holds on its parent is never
//! released, so the parent -- which is entirely unrelated to the panic -- never
//! closes.
#![cfg(feature = "registry")]

use std::{
    panic::{catch_unwind, AssertUnwindSafe},
    sync::{Arc, Mutex},
};
use tracing::dispatch::{self, Dispatch};
use tracing_core::span::{Attributes, Id};
use tracing_subscriber::{
    prelude::*, registry::LookupSpan, subscribe::Context, Registry, Subscribe,
};

struct Marker(#[allow(dead_code)] &'static str);

struct Inner;
impl<C> Subscribe<C> for Inner
where
    C: tracing::Collect + for<'a> LookupSpan<'a>,
{
    fn on_new_span(&self, _: &Attributes<'_>, id: &Id, ctx: Context<'_, C>) {
        let span = ctx.span(id).unwrap();
        span.extensions_mut().insert(Marker(span.name()));
    }
    fn on_close(&self, id: Id, ctx: Context<'_, C>) {
        if ctx.span(&id).unwrap().name() == "child" {
            panic!("inner layer fails while handling the close of `child`");
        }
    }
}

#[derive(Clone, Default)]
struct Outer(Arc<Mutex<Vec<&'static str>>>);
impl<C> Subscribe<C> for Outer
where
    C: tracing::Collect + for<'a> LookupSpan<'a>,
{
    fn on_close(&self, id: Id, ctx: Context<'_, C>) {
        self.0.lock().unwrap().push(ctx.span(&id).unwrap().name());
    }
}

type Seen = (
    Option<(&'static str, bool, Option<&'static str>)>,
    Option<&'static str>,
    Vec<&'static str>,
);

fn run() -> Seen {
    let closed = Outer::default();
    let dispatch = Dispatch::new(Registry::default().with(Inner).with(closed.clone()));
    let registry = dispatch.downcast_ref::<Registry>().unwrap();

    let (parent_id, child_id) = dispatch::with_default(&dispatch, || {
        let parent = tracing::info_span!("parent");
        let child = tracing::info_span!(parent: &parent, "child");
        let ids = (parent.id().unwrap(), child.id().unwrap());
        drop(parent); // kept open by `child`

        let res = catch_unwind(AssertUnwindSafe(move || drop(child)));
        assert!(res.is_err(), "the inner layer's on_close panics");
        ids
    });

    // `child` has no handle, is not entered and has no children; its close *was*
    // reported (to the inner layer).
    let child_still_there = registry.span(&child_id).map(|s| {
        (
            s.name(),
            s.extensions().get::<Marker>().is_some(),
            s.parent().map(|p| p.name()),
        )
    });
    let parent_still_there = registry.span(&parent_id).map(|s| s.name());
    let closed = closed.0.lock().unwrap().clone();
    println!(
        "child: {:?}, parent: {:?}, closed seen by outer layer: {:?}",
        child_still_there, parent_still_there, closed
    );
    (child_still_there, parent_still_there, closed)
}

#[test]
fn span_is_gone_after_its_close_even_if_a_layer_unwinds() {
    let (child_still_there, _, _) = run();
    assert!(
        child_still_there.is_none(),
        "C05 violated (\"afterwards the span is gone\"): `child` was reported closed, its \
         reference count is 0, but it is still in the registry with its stored data \
         (name, has extension, parent) = {:?}",
        child_still_there
    );
}

#[test]
fn parent_closes_once_its_last_child_has_closed() {
    let (_, parent_still_there, closed) = run();
    assert!(
        closed.contains(&"parent") && parent_still_there.is_none(),
        "C05 violated (\"closes ... at the moment the last handle has been dropped ... and all \
         of its children have closed\"): `parent` has no handle and its only child has closed, \
         but it was never reported closed (outer layer saw {:?}) and is still stored: {:?}",
        closed, parent_still_there
    );
}
