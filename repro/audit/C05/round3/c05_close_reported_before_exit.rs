//! C05 audit demonstration (1).
//!
//! History (single thread, one span, registry + layers):
//!   create X; enter X; drop the last handle of X (while entered); exit X.
//!
//! `Layered::exit` calls `self.inner.exit(id)` *first* and `on_exit` afterwards.
//! `Registry::exit` releases the entered reference, which here is the last
//! one, so the whole close (every layer's `on_close`, then the removal of the
//! span from the registry) runs *inside* `inner.exit()`.  Only then do the
//! layers get `on_exit` -- for a span that they were already told is closed
//! and whose data is gone.
#![cfg(all(feature = "registry", feature = "fmt"))]

use std::sync::{Arc, Mutex};
use tracing::dispatch::{self, Dispatch};
use tracing_core::span::Id;
use tracing_subscriber::{
    fmt::format::FmtSpan, prelude::*, registry::LookupSpan, subscribe::Context, Registry,
    Subscribe,
};

#[derive(Clone, Default)]
struct Log(Arc<Mutex<Vec<String>>>);

impl Log {
    fn push(&self, s: String) {
        self.0.lock().unwrap().push(s);
    }
}

struct Recorder {
    name: &'static str,
    log: Log,
}

impl<C> Subscribe<C> for Recorder
where
    C: tracing::Collect + for<'a> LookupSpan<'a>,
{
    fn on_enter(&self, id: &Id, ctx: Context<'_, C>) {
        self.log
            .push(format!("{}:enter(data={})", self.name, ctx.span(id).is_some()));
    }
    fn on_exit(&self, id: &Id, ctx: Context<'_, C>) {
        self.log
            .push(format!("{}:exit(data={})", self.name, ctx.span(id).is_some()));
    }
    fn on_close(&self, id: Id, ctx: Context<'_, C>) {
        self.log
            .push(format!("{}:close(data={})", self.name, ctx.span(&id).is_some()));
    }
}

#[test]
fn close_is_reported_while_the_span_is_still_entered() {
    let log = Log::default();
    let collector = Registry::default()
        .with(Recorder {
            name: "inner",
            log: log.clone(),
        })
        .with(Recorder {
            name: "outer",
            log: log.clone(),
        });
    let dispatch = Dispatch::new(collector);

    dispatch::with_default(&dispatch, || {
        let span = tracing::info_span!("x");
        let id = span.id().expect("enabled");
        dispatch.enter(&id);
        // the handle is dropped while the span is entered: no close yet
        drop(span);
        assert!(
            !log.0.lock().unwrap().iter().any(|l| l.contains("close")),
            "closed while entered"
        );
        dispatch.exit(&id);
    });

    let log = log.0.lock().unwrap().clone();
    println!("{:#?}", log);
    let pos = |needle: &str| {
        log.iter()
            .position(|l| l.starts_with(needle))
            .unwrap_or_else(|| panic!("missing {} in {:?}", needle, log))
    };
    for layer in ["inner", "outer"] {
        assert!(
            pos(&format!("{}:exit", layer)) < pos(&format!("{}:close", layer)),
            "C05 violated (\"reported closed ... [once] it is no longer entered on any thread \
             ... never earlier\"): layer `{}` was told the span CLOSED before it was told \
             the span was EXITED; callbacks in order: {:?}",
            layer, log
        );
    }
}

#[test]
fn fmt_layer_survives_exit_releasing_the_last_reference() {
    // Same history with the stock `fmt` layer configured to print a line when a
    // span closes (which makes it track busy/idle time in on_enter/on_exit).
    let collector = tracing_subscriber::fmt()
        .with_span_events(FmtSpan::CLOSE)
        .with_writer(std::io::sink)
        .finish();
    let dispatch = Dispatch::new(collector);

    let res = std::panic::catch_unwind(std::panic::AssertUnwindSafe(|| {
        dispatch::with_default(&dispatch, || {
            let span = tracing::info_span!("x");
            let id = span.id().expect("enabled");
            dispatch.enter(&id);
            drop(span);
            dispatch.exit(&id);
        })
    }));
    assert!(
        res.is_ok(),
        "C05 violated: the span was closed and removed from the registry inside \
         `Registry::exit`, i.e. before the layers were notified of the exit; the fmt layer's \
         `on_exit` then found no span data and panicked: {:?}",
        res.err()
            .and_then(|e| e.downcast_ref::<String>().cloned().or_else(|| e
                .downcast_ref::<&str>()
                .map(|s| s.to_string())))
    );
}
