//! C05 demonstration (interleaving): two threads drop the two handles of
//! `child` at the same time; `child`'s parent and grandparent have no handles
//! left, so all three spans must close and be removed.
//!
//! `Registry::try_close` holds a `sharded_slab::pool::Ref` to the span's slot
//! for the whole call. If the thread that dropped the *first* handle (its
//! `try_close` returns `false`) has not released that `Ref` yet when the other
//! thread, which dropped the last handle, has already run `on_close` and
//! `Pool::clear`, the slot is only *marked*, and it is actually cleared by the
//! first thread when its `Ref` is dropped - i.e. inside that thread's own
//! `Layered::try_close`, whose `CloseGuard` has already bumped the thread-local
//! `CLOSE_COUNT`. `DataInner::clear` releases the parent from there, so the
//! parent's close is a *nested* close: its `CloseGuard` reads `CLOSE_COUNT == 2`
//! and does not remove it, and the outer guard belongs to `child` and is not
//! `is_closing`. The parent is reported closed but stays in the registry for
//! ever, still holding its reference to the grandparent, which never closes.
//!
//! This is a race; it needs a few thousand iterations on a multi-core machine
//! (observed: about 1 in 3000 iterations in a debug build on 16 cores).
#![cfg(all(feature = "registry", feature = "std"))]

use std::sync::{
    atomic::{AtomicUsize, Ordering},
    Arc, Mutex,
};
use tracing::{Collect, Dispatch, Span};
use tracing_subscriber::{
    prelude::*,
    registry::{LookupSpan, Registry},
    subscribe::{Context, Subscribe},
};

#[derive(Clone, Default)]
struct Closes(Arc<Mutex<Vec<(String, &'static str)>>>);

impl<C> Subscribe<C> for Closes
where
    C: Collect + for<'a> LookupSpan<'a>,
{
    fn on_close(&self, id: tracing::span::Id, ctx: Context<'_, C>) {
        let name = ctx
            .span(&id)
            .map(|s| s.name())
            .unwrap_or("<data not readable in on_close>");
        let thread = std::thread::current().name().unwrap_or("?").to_string();
        self.0.lock().unwrap().push((thread, name));
    }
}

#[test]
fn concurrent_drop_of_two_handles() {
    let iters: usize = std::env::var("C05_ITERS")
        .ok()
        .and_then(|s| s.parse().ok())
        .unwrap_or(3_000_000);
    let closes = Closes::default();
    // The owning collector is the default on all three threads, all the time.
    let dispatch = Dispatch::new(Registry::default().with(closes.clone()));

    let slot: Arc<[Mutex<Option<Span>>; 2]> = Arc::new([Mutex::new(None), Mutex::new(None)]);
    let go = Arc::new(AtomicUsize::new(0));
    let done = Arc::new(AtomicUsize::new(0));

    let _workers: Vec<_> = (0..2)
        .map(|i| {
            let slot = slot.clone();
            let go = go.clone();
            let done = done.clone();
            let dispatch = dispatch.clone();
            std::thread::Builder::new()
                .name(format!("worker-{}", i))
                .spawn(move || {
                    let _g = tracing::dispatch::set_default(&dispatch);
                    for n in 1..=iters {
                        while go.load(Ordering::Acquire) < n {
                            std::hint::spin_loop();
                        }
                        let span = slot[i].lock().unwrap().take().unwrap();
                        // second rendezvous, so that both drops start together
                        done.fetch_add(1, Ordering::AcqRel);
                        while done.load(Ordering::Acquire) < 4 * (n - 1) + 2 {
                            std::hint::spin_loop();
                        }
                        drop(span);
                        done.fetch_add(1, Ordering::AcqRel);
                    }
                })
                .unwrap()
        })
        .collect();

    let _g = tracing::dispatch::set_default(&dispatch);
    let registry = dispatch.downcast_ref::<Registry>().unwrap();
    for n in 1..=iters {
        let grandparent = tracing::info_span!("grandparent");
        let parent = tracing::info_span!(parent: &grandparent, "parent");
        let child = tracing::info_span!(parent: &parent, "child");
        let gp_id = grandparent.id().unwrap();
        let p_id = parent.id().unwrap();
        // parents dropped before their children
        drop(grandparent);
        drop(parent);
        *slot[0].lock().unwrap() = Some(child.clone());
        *slot[1].lock().unwrap() = Some(child);
        closes.0.lock().unwrap().clear();

        go.store(n, Ordering::Release);
        while done.load(Ordering::Acquire) < 4 * n {
            std::hint::spin_loop();
        }

        // Both handles are gone and both `drop`s have returned.
        let log = closes.0.lock().unwrap().clone();
        let p_stored = registry.span(&p_id).is_some();
        let gp_stored = registry.span(&gp_id).is_some();
        let names: Vec<_> = log.iter().map(|(_, name)| *name).collect();
        assert!(
            names == ["child", "parent", "grandparent"] && !p_stored && !gp_stored,
            "C05 violated at iteration {} (clauses: after its close has been handled a span is \
             gone; a span closes once its last handle is dropped and all its children have \
             closed): both handles of `child` were dropped concurrently; closes reported \
             (thread, span): {:?}; `parent` still stored in the registry: {}; `grandparent` \
             still stored: {}",
            n,
            log,
            p_stored,
            gp_stored
        );
    }
}
