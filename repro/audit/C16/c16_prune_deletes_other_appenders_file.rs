//! C16 demonstration 2: pruning removes a file that is not one of the
//! appender's log files (and thereby loses another appender's writes).
//!
//! Clauses violated:
//!   * "with a file limit every rotation leaves at most that many of THE
//!     APPENDER'S log files, removing the oldest first" / "only the oldest are
//!     pruned" - the file removed is not a log file of the limited appender at
//!     all, and the appender's own oldest file is kept in its place;
//!   * for the second appender: "Every buffer written through the rolling file
//!     appender is stored exactly once ... in ... the single file for never ...
//!     never lost" - its file is unlinked under it, so what it wrote is gone
//!     and what it writes afterwards goes to an unlinked inode.
//!
//! Mechanism (`tracing-appender/src/rolling.rs`, `Inner::prune_old_logs`): a
//! directory entry is treated as one of the appender's log files when
//! `filename.starts_with(prefix)` and `filename.ends_with(suffix)`; neither the
//! `.` separators nor the date between them are checked. With prefix `app` and
//! suffix `log` the name `app-audit.log` - the single file of a
//! `Rotation::NEVER` appender living in the same directory - qualifies, is
//! counted against the limit, and being the oldest is the one deleted.
//!
//! The clock is controlled by interposing `clock_gettime(CLOCK_REALTIME)` for
//! this test binary only; the library is not modified. (File creation times,
//! which `prune_old_logs` sorts by, still come from the kernel's real clock,
//! hence the short real sleeps between file creations.)

use std::{
    fs,
    io::Write,
    sync::atomic::{AtomicI64, Ordering},
    thread,
    time::Duration,
};
use tracing_appender::rolling::{self, RollingFileAppender, Rotation};

// ---------------------------------------------------------------- fake clock

static FAKE_REALTIME_SECS: AtomicI64 = AtomicI64::new(0);

#[repr(C)]
pub struct Timespec {
    tv_sec: i64,
    tv_nsec: i64,
}

extern "C" {
    fn syscall(num: i64, ...) -> i64;
}

const CLOCK_REALTIME: i32 = 0;
#[cfg(target_arch = "x86_64")]
const SYS_CLOCK_GETTIME: i64 = 228;
#[cfg(target_arch = "aarch64")]
const SYS_CLOCK_GETTIME: i64 = 113;

#[no_mangle]
pub unsafe extern "C" fn clock_gettime(clock: i32, ts: *mut Timespec) -> i32 {
    let fake = FAKE_REALTIME_SECS.load(Ordering::SeqCst);
    if clock == CLOCK_REALTIME && fake != 0 {
        (*ts).tv_sec = fake;
        (*ts).tv_nsec = 0;
        return 0;
    }
    syscall(SYS_CLOCK_GETTIME, clock as i64, ts) as i32
}

fn set_clock(unix_secs: i64) {
    FAKE_REALTIME_SECS.store(unix_secs, Ordering::SeqCst);
}

// 2024-02-29 10:30:00 UTC
const T_10_30: i64 = 1_709_202_600;
const T_11_00: i64 = T_10_30 + 30 * 60;

fn listing(dir: &std::path::Path) -> Vec<String> {
    let mut v: Vec<String> = fs::read_dir(dir)
        .unwrap()
        .map(|e| e.unwrap().file_name().into_string().unwrap())
        .collect();
    v.sort();
    v
}

#[test]
fn rotation_of_one_appender_keeps_the_other_appenders_file() {
    let dir = tempfile::tempdir().expect("tempdir");
    set_clock(T_10_30);
    assert_eq!(
        time::OffsetDateTime::now_utc().unix_timestamp(),
        T_10_30,
        "clock interposition is not active; this demonstration cannot run"
    );

    // Appender 1: never rotates, single file `app-audit.log`.
    let mut audit = rolling::never(dir.path(), "app-audit.log");
    audit.write_all(b"audit record 1\n").unwrap();
    audit.flush().unwrap();
    thread::sleep(Duration::from_millis(50));

    // Appender 2: `app.<date-hour>.log`, keep at most two files.
    let mut app = RollingFileAppender::builder()
        .rotation(Rotation::HOURLY)
        .filename_prefix("app")
        .filename_suffix("log")
        .max_log_files(2)
        .build(dir.path())
        .expect("build");
    app.write_all(b"app line at 10:30\n").unwrap();
    assert_eq!(
        listing(dir.path()),
        ["app-audit.log", "app.2024-02-29-10.log"]
    );
    thread::sleep(Duration::from_millis(50));

    // 11:00:00 - appender 2 rotates. It owns ONE log file so far, the limit is
    // two: nothing at all needs to be removed.
    set_clock(T_11_00);
    app.write_all(b"app line at 11:00\n").unwrap();

    // Appender 1 keeps writing.
    audit.write_all(b"audit record 2\n").unwrap();
    audit.flush().unwrap();

    let files = listing(dir.path());
    set_clock(0);
    let audit_contents = fs::read_to_string(dir.path().join("app-audit.log")).ok();
    assert_eq!(
        audit_contents.as_deref(),
        Some("audit record 1\naudit record 2\n"),
        "C16 clause violated: 'every rotation leaves at most that many of the appender's log \
         files, removing the oldest first' / 'never lost': the hourly appender `app.*.log` \
         (limit 2, owning a single old file) rotated at 11:00 and deleted `app-audit.log`, the \
         single file of the Rotation::NEVER appender in the same directory - both records \
         written through that appender are lost. Directory now: {:?}",
        files
    );
}
