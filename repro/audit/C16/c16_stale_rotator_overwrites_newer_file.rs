//! C16 demonstration 1: a delayed rotator re-installs an OLDER period's file.
//!
//! Clause violated: "Every buffer written through the rolling file appender is
//! stored ... in the file named for the rotation period ... that contains the
//! time of the write" (the only exemption is a write that *overlaps* another
//! thread's rotation; the misplaced writes below happen long after every
//! rotation has finished).
//!
//! Mechanism (`tracing-appender/src/rolling.rs`, `MakeWriter::make_writer`):
//!
//! ```ignore
//! let now = self.now();                                   // (1) read once
//! if let Some(current_time) = self.state.should_rollover(now) {
//!     if self.state.advance_date(now, current_time) {     // (2) CAS on next_date
//!         self.state.refresh_writer(now, &mut self.writer.write()); // (3) lock, open file for `now`
//!     }
//! }
//! ```
//!
//! Winning the CAS (2) and installing the file (3) are not one atomic step and
//! (3) uses the clock reading taken at (1). Thread B wins the CAS for period 11
//! and then has to wait for the write lock. Before B gets the lock the clock
//! reaches period 12, thread C wins the *next* CAS, takes the (unfair, barging)
//! lock first and installs file 12. B then gets the lock and installs file 11
//! on top of it. `next_date` is now 13:00, so every write during the whole of
//! period 12 lands in the file named for period 11.
//!
//! The clock is controlled by interposing `clock_gettime(CLOCK_REALTIME)` for
//! this test binary only (the library reads the time through
//! `OffsetDateTime::now_utc()`; the injectable `now` field exists only under
//! `cfg(test)` of the library itself). The library is not modified.

use std::{
    fs,
    io::Write,
    sync::atomic::{AtomicI64, Ordering},
    thread,
    time::Duration,
};
use tracing_appender::rolling::{RollingFileAppender, Rotation};
use tracing_subscriber::fmt::writer::MakeWriter;

// ---------------------------------------------------------------- fake clock

static FAKE_REALTIME_SECS: AtomicI64 = AtomicI64::new(0);

#[repr(C)]
pub struct Timespec {
    tv_sec: i64,
    tv_nsec: i64,
}

extern "C" {
    fn syscall(num: i64, ...) -> i64;
}

const CLOCK_REALTIME: i32 = 0;
#[cfg(target_arch = "x86_64")]
const SYS_CLOCK_GETTIME: i64 = 228;
#[cfg(target_arch = "aarch64")]
const SYS_CLOCK_GETTIME: i64 = 113;

/// Overrides libc's `clock_gettime` for everything linked into this test
/// binary. Only `CLOCK_REALTIME` is faked (and only once a fake time has been
/// set); every other clock is forwarded to the kernel.
#[no_mangle]
pub unsafe extern "C" fn clock_gettime(clock: i32, ts: *mut Timespec) -> i32 {
    let fake = FAKE_REALTIME_SECS.load(Ordering::SeqCst);
    if clock == CLOCK_REALTIME && fake != 0 {
        (*ts).tv_sec = fake;
        (*ts).tv_nsec = 0;
        return 0;
    }
    syscall(SYS_CLOCK_GETTIME, clock as i64, ts) as i32
}

fn set_clock(unix_secs: i64) {
    FAKE_REALTIME_SECS.store(unix_secs, Ordering::SeqCst);
}

// 2024-02-29 10:30:00 UTC (a leap day, for good measure).
const T_10_30: i64 = 1_709_202_600;
const T_11_00: i64 = T_10_30 + 30 * 60;
const T_12_00: i64 = T_11_00 + 3600;

// ---------------------------------------------------------------- the test

/// Runs the interleaving once. Returns `Some(report)` if the final state is
/// wrong, `None` if thread B happened to get the lock before C (in which case
/// nothing goes wrong and the caller tries again).
fn attempt() -> Option<String> {
    let dir = tempfile::tempdir().expect("tempdir");
    set_clock(T_10_30);
    assert_eq!(
        time::OffsetDateTime::now_utc().unix_timestamp(),
        T_10_30,
        "clock interposition is not active; this demonstration cannot run"
    );

    let appender = RollingFileAppender::builder()
        .rotation(Rotation::HOURLY)
        .filename_prefix("app")
        .build(dir.path())
        .expect("build");

    // A writer obtained in period 10 and not yet dropped (a slow write).
    let mut slow = appender.make_writer();
    slow.write_all(b"A written at 10:30:00\n").unwrap();

    thread::scope(|s| {
        // 11:00:00 exactly: B rotates. It wins the CAS and then waits for the
        // write lock, which it cannot get while `slow` is alive.
        set_clock(T_11_00);
        let b = s.spawn(|| {
            let mut w = appender.make_writer();
            w.write_all(b"B written at 11:00:00\n").unwrap();
        });
        thread::sleep(Duration::from_millis(50));

        // 12:00:00 exactly: the slow write finishes and C (this thread) writes.
        set_clock(T_12_00);
        drop(slow);
        let mut w = appender.make_writer();
        w.write_all(b"C written at 12:00:00\n").unwrap();
        drop(w);
        b.join().unwrap();
    });

    // Half a minute later. No rotation is in progress, none is due.
    set_clock(T_12_00 + 30);
    let mut w = appender.make_writer();
    w.write_all(b"D written at 12:00:30\n").unwrap();
    drop(w);
    // And again half an hour later, through the same interface.
    set_clock(T_12_00 + 1800);
    let mut w = appender.make_writer();
    w.write_all(b"E written at 12:30:00\n").unwrap();
    drop(w);

    let read = |name: &str| fs::read_to_string(dir.path().join(name)).unwrap_or_default();
    let f11 = read("app.2024-02-29-11");
    let f12 = read("app.2024-02-29-12");
    if f12.contains("D written at 12:00:30") && f12.contains("E written at 12:30:00") {
        return None;
    }
    Some(format!(
        "app.2024-02-29-11 = {:?}\napp.2024-02-29-12 = {:?}",
        f11, f12
    ))
}

#[test]
fn write_after_two_finished_rotations_lands_in_its_own_period_file() {
    for n in 1..=200 {
        if let Some(report) = attempt() {
            set_clock(0);
            panic!(
                "C16 clause violated: 'every buffer ... is stored ... in the file named for the \
                 rotation period that contains the time of the write'.\n\
                 Writes made at 12:00:30 and 12:30:00 (no rotation in progress, none due) were \
                 stored in the file for hour 11, because the thread that rotated at 11:00:00 \
                 installed its file AFTER the thread that rotated at 12:00:00 (attempt {}).\n{}",
                n, report
            );
        }
    }
    set_clock(0);
}
