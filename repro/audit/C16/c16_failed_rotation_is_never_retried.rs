//! C16 demonstration 3: one transient failure to open the new file at the
//! period boundary misfiles every write of the whole following period.
//!
//! Clauses violated:
//!   * "Every buffer ... is stored ... in the file named for the rotation
//!     period ... that contains the time of the write" - writes made at
//!     11:00:01 and 11:45:00, when nothing prevents the file for hour 11 from
//!     being created, are stored in the file named for hour 10;
//!   * "A period boundary triggers exactly one rotation" - the 11:00 boundary
//!     ends up triggering none.
//!
//! Mechanism (`tracing-appender/src/rolling.rs`): both `Write::write` and
//! `MakeWriter::make_writer` first commit the new deadline
//! (`Inner::advance_date`, `next_date` := 12:00) and only then call
//! `Inner::refresh_writer`, which on an `open` error just prints
//! "Couldn't create writer for logs" and keeps the old file. Nothing records
//! that the rotation did not happen, so `should_rollover` stays false until
//! 12:00 and the rotation is never retried.
//!
//! The transient error used here is EMFILE (the process is momentarily out of
//! file descriptors at 11:00:00); ENOSPC/EACCES/ENFILE behave the same.
//!
//! The clock is controlled by interposing `clock_gettime(CLOCK_REALTIME)` for
//! this test binary only; the library is not modified.

use std::{
    fs::{self, File},
    io::Write,
    sync::atomic::{AtomicI64, Ordering},
};
use tracing_appender::rolling::{RollingFileAppender, Rotation};
use tracing_subscriber::fmt::writer::MakeWriter;

// ---------------------------------------------------------------- fake clock

static FAKE_REALTIME_SECS: AtomicI64 = AtomicI64::new(0);

#[repr(C)]
pub struct Timespec {
    tv_sec: i64,
    tv_nsec: i64,
}

#[repr(C)]
struct Rlimit {
    cur: u64,
    max: u64,
}

extern "C" {
    fn syscall(num: i64, ...) -> i64;
    fn getrlimit(resource: i32, rlim: *mut Rlimit) -> i32;
    fn setrlimit(resource: i32, rlim: *const Rlimit) -> i32;
}

const RLIMIT_NOFILE: i32 = 7;
const CLOCK_REALTIME: i32 = 0;
#[cfg(target_arch = "x86_64")]
const SYS_CLOCK_GETTIME: i64 = 228;
#[cfg(target_arch = "aarch64")]
const SYS_CLOCK_GETTIME: i64 = 113;

#[no_mangle]
pub unsafe extern "C" fn clock_gettime(clock: i32, ts: *mut Timespec) -> i32 {
    let fake = FAKE_REALTIME_SECS.load(Ordering::SeqCst);
    if clock == CLOCK_REALTIME && fake != 0 {
        (*ts).tv_sec = fake;
        (*ts).tv_nsec = 0;
        return 0;
    }
    syscall(SYS_CLOCK_GETTIME, clock as i64, ts) as i32
}

fn set_clock(unix_secs: i64) {
    FAKE_REALTIME_SECS.store(unix_secs, Ordering::SeqCst);
}

// 2024-02-29 10:30:00 UTC
const T_10_30: i64 = 1_709_202_600;
const T_11_00: i64 = T_10_30 + 30 * 60;

/// Uses up every file descriptor the process may have; returns the hoard (drop
/// it to end the shortage) and the limit to restore.
fn exhaust_fds() -> (Vec<File>, Rlimit) {
    let mut old = Rlimit { cur: 0, max: 0 };
    unsafe {
        assert_eq!(getrlimit(RLIMIT_NOFILE, &mut old), 0);
        let low = Rlimit {
            cur: 128,
            max: old.max,
        };
        assert_eq!(setrlimit(RLIMIT_NOFILE, &low), 0);
    }
    let mut hoard = Vec::new();
    while let Ok(f) = File::open("/dev/null") {
        hoard.push(f);
    }
    (hoard, old)
}

#[test]
fn writes_after_a_transient_open_failure_land_in_their_own_period_file() {
    let dir = tempfile::tempdir().expect("tempdir");
    set_clock(T_10_30);
    assert_eq!(
        time::OffsetDateTime::now_utc().unix_timestamp(),
        T_10_30,
        "clock interposition is not active; this demonstration cannot run"
    );

    let mut appender = RollingFileAppender::builder()
        .rotation(Rotation::HOURLY)
        .filename_prefix("app")
        .build(dir.path())
        .expect("build");
    appender.write_all(b"written at 10:30:00\n").unwrap();

    // 11:00:00 - for an instant the process has no free file descriptor.
    let (hoard, old_limit) = exhaust_fds();
    set_clock(T_11_00);
    appender.write_all(b"written at 11:00:00\n").unwrap();
    drop(hoard);
    unsafe {
        assert_eq!(setrlimit(RLIMIT_NOFILE, &old_limit), 0);
    }
    // The shortage is over: creating a file in the log directory works.
    File::create(dir.path().join("probe")).expect("fds are available again");
    fs::remove_file(dir.path().join("probe")).unwrap();

    // One second later, exclusive `Write` interface.
    set_clock(T_11_00 + 1);
    appender.write_all(b"written at 11:00:01\n").unwrap();
    // Three quarters of an hour later, shared `MakeWriter` interface.
    set_clock(T_11_00 + 45 * 60);
    {
        let mut w = appender.make_writer();
        w.write_all(b"written at 11:45:00\n").unwrap();
    }
    appender.flush().unwrap();
    set_clock(0);

    let f10 = fs::read_to_string(dir.path().join("app.2024-02-29-10")).unwrap_or_default();
    let f11 = fs::read_to_string(dir.path().join("app.2024-02-29-11")).ok();
    assert_eq!(
        f11.as_deref().map(|s| s.ends_with("written at 11:00:01\nwritten at 11:45:00\n")),
        Some(true),
        "C16 clause violated: 'every buffer ... is stored ... in the file named for the rotation \
         period that contains the time of the write' / 'a period boundary triggers exactly one \
         rotation': opening the new file failed once at 11:00:00 (EMFILE); the rotation was never \
         retried, so the writes of 11:00:01 and 11:45:00 went to the file for hour 10.\n\
         app.2024-02-29-10 = {:?}\napp.2024-02-29-11 = {:?}",
        f10,
        f11
    );
}
