//! C16, clause "every buffer written through the rolling file appender is stored ... in the
//! file named for the rotation period that contains the time of the write ... through both
//! the exclusive Write interface and the shared MakeWriter interface".
//!
//! The two interfaces are not siblings: `<RollingFileAppender as io::Write>::write` reads the
//! clock on every write, but the shared interface reads it only in `make_writer`.  The
//! `RollingWriter` it returns is a public `io::Write` that is nothing but a read guard on the
//! current `File`: `RollingWriter::write` never looks at the time.  A writer that is still
//! alive when its period ends keeps storing buffers in the old period's file -- with no other
//! thread and no rotation overlapping the write -- and, being a read guard, it also keeps
//! every other thread's rotation (`self.writer.write()`) from happening until it is dropped.
//!
//! Uses the real clock: waits for the next minute boundary (at most ~70 s).

use std::{io::Write, path::Path, thread::sleep, time::Duration};
use time::OffsetDateTime;
use tracing_appender::rolling::{RollingFileAppender, Rotation};
use tracing_subscriber::fmt::MakeWriter;

fn minute_now() -> i64 {
    OffsetDateTime::now_utc().unix_timestamp().div_euclid(60)
}

fn settle() {
    while OffsetDateTime::now_utc().second() >= 50 {
        sleep(Duration::from_millis(200));
    }
}

fn wait_for_next_minute(start_minute: i64) {
    while minute_now() <= start_minute {
        sleep(Duration::from_millis(100));
    }
    sleep(Duration::from_millis(1500));
}

fn file_name(minute: i64) -> String {
    let d = OffsetDateTime::from_unix_timestamp(minute * 60).unwrap();
    format!(
        "report.{:04}-{:02}-{:02}-{:02}-{:02}",
        d.year(),
        d.month() as u8,
        d.day(),
        d.hour(),
        d.minute()
    )
}

fn dump(dir: &Path) -> Vec<(String, String)> {
    let mut out = Vec::new();
    for entry in std::fs::read_dir(dir).unwrap() {
        let path = entry.unwrap().path();
        out.push((
            path.file_name().unwrap().to_str().unwrap().to_string(),
            std::fs::read_to_string(&path).unwrap(),
        ));
    }
    out.sort();
    out
}

#[test]
fn a_rolling_writer_that_outlives_its_period_keeps_writing_to_the_old_file() {
    settle();
    let dir = tempfile::tempdir().unwrap();
    let start = minute_now();
    let appender = RollingFileAppender::builder()
        .rotation(Rotation::MINUTELY)
        .filename_prefix("report")
        .build(dir.path())
        .unwrap();

    // e.g. a thread that streams a long report through one writer
    let mut writer = appender.make_writer();
    writer.write_all(b"row 1\n").unwrap();
    assert_eq!(minute_now(), start, "test setup: still in the first minute");

    wait_for_next_minute(start);

    let minute_of_write = minute_now();
    writer.write_all(b"row 2\n").unwrap();
    assert_eq!(minute_now(), minute_of_write, "test setup: no boundary during the write");
    drop(writer);

    let files = dump(dir.path());
    println!("{:#?}", files);
    let expected = file_name(minute_of_write);
    let landed_in = files
        .iter()
        .find(|(_, content)| content.contains("row 2\n"))
        .map(|(name, _)| name.clone());
    assert_eq!(
        landed_in.as_deref(),
        Some(expected.as_str()),
        "C16 clause `every buffer is stored in the file named for the rotation period that \
         contains the time of the write (shared MakeWriter interface)` violated: `row 2` was \
         written through a RollingWriter during minute {}, single thread, no rotation in \
         progress, and was stored in the previous minute's file",
        expected
    );
}
