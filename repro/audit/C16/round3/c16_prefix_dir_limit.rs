//! C16, clause "with a file limit every rotation leaves at most that many of the
//! appender's log files".
//!
//! `RollingFileAppender::new` / `rolling::minutely` & co. take the file name prefix as
//! `impl AsRef<Path>`, and `create_writer` joins it onto the directory and creates missing
//! parents -- so a prefix with a directory component (`"svc/app"`) is accepted and the log
//! files are written to `<dir>/svc/app.<date>`.  `prune_old_logs`, however, lists only
//! `<dir>` itself and compares the *bare* file names against the whole prefix, so it never
//! recognises a single one of the appender's own files: `max_log_files` is silently a no-op.
//!
//! Uses the real clock: waits for the next minute boundary (at most ~70 s).

use std::{
    io::Write,
    path::{Path, PathBuf},
    thread::sleep,
    time::Duration,
};
use time::OffsetDateTime;
use tracing_appender::rolling::{RollingFileAppender, Rotation};

fn minute_now() -> i64 {
    OffsetDateTime::now_utc().unix_timestamp().div_euclid(60)
}

/// Do not start in the last seconds of a minute, so that "construct + first write" and the
/// second write are in two well-defined, adjacent minutes.
fn settle() {
    while OffsetDateTime::now_utc().second() >= 50 {
        sleep(Duration::from_millis(200));
    }
}

fn wait_for_next_minute(start_minute: i64) {
    while minute_now() <= start_minute {
        sleep(Duration::from_millis(100));
    }
    // well inside the new minute
    sleep(Duration::from_millis(1500));
}

fn files_below(dir: &Path) -> Vec<PathBuf> {
    let mut out = Vec::new();
    for entry in std::fs::read_dir(dir).unwrap() {
        let path = entry.unwrap().path();
        if path.is_dir() {
            out.extend(files_below(&path));
        } else {
            out.push(path);
        }
    }
    out.sort();
    out
}

#[test]
fn file_limit_is_ignored_when_the_prefix_has_a_directory_component() {
    settle();
    let plain_dir = tempfile::tempdir().unwrap();
    let nested_dir = tempfile::tempdir().unwrap();
    let start = minute_now();

    // control: the same configuration with a plain prefix
    let mut plain = RollingFileAppender::builder()
        .rotation(Rotation::MINUTELY)
        .filename_prefix("app")
        .filename_suffix("log")
        .max_log_files(1)
        .build(plain_dir.path())
        .unwrap();
    // the prefix names a file inside a sub-directory of the log directory
    let mut nested = RollingFileAppender::builder()
        .rotation(Rotation::MINUTELY)
        .filename_prefix("svc/app")
        .filename_suffix("log")
        .max_log_files(1)
        .build(nested_dir.path())
        .unwrap();

    plain.write_all(b"first minute\n").unwrap();
    nested.write_all(b"first minute\n").unwrap();
    assert_eq!(minute_now(), start, "test setup: still in the first minute");

    wait_for_next_minute(start);

    // first write of the next minute: one rotation in each appender
    plain.write_all(b"second minute\n").unwrap();
    nested.write_all(b"second minute\n").unwrap();

    let plain_files = files_below(plain_dir.path());
    let nested_files = files_below(nested_dir.path());
    println!("plain prefix  : {:#?}", plain_files);
    println!("nested prefix : {:#?}", nested_files);

    assert_eq!(
        plain_files.len(),
        1,
        "control: with prefix `app` and max_log_files(1) one rotation leaves one file"
    );
    assert!(
        nested_files.len() <= 1,
        "C16 clause `with a file limit every rotation leaves at most that many of the \
         appender's log files` violated: max_log_files(1), prefix `svc/app`, one rotation, \
         and {} of the appender's own log files are left: {:?}",
        nested_files.len(),
        nested_files
    );
}
