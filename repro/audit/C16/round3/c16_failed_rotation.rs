//! C16, clauses "a write lands in the file named for the rotation period that contains the
//! time of the write" and "... is never lost" -- error path of a rotation.
//!
//! `make_writer` / `write` first commit the new rollover time (`advance_date`) and only then
//! call `refresh_writer`, which (1) prunes and (2) tries to create the new file.  If that one
//! `open` fails, the error is printed and forgotten: the rollover time has already moved on,
//! so nothing retries until the *next* boundary and every write of the whole period -- long
//! after the cause of the failure is gone -- lands in the previous period's file.  And because
//! pruning runs *before* the new file is known to exist, with `max_log_files(1)` that
//! previous file has just been unlinked: the appender keeps "successfully" writing into a
//! deleted inode and the whole period's output is lost.
//!
//! Uses the real clock (each test waits for the next minute boundary, at most ~70 s).
//! Run with `--test-threads=1`: the first test exhausts the process's file descriptors.

use std::{
    fs::File,
    io::Write,
    path::Path,
    thread::sleep,
    time::Duration,
};
use time::OffsetDateTime;
use tracing_appender::rolling::{RollingFileAppender, Rotation};

fn minute_now() -> i64 {
    OffsetDateTime::now_utc().unix_timestamp().div_euclid(60)
}

fn settle() {
    while OffsetDateTime::now_utc().second() >= 50 {
        sleep(Duration::from_millis(200));
    }
}

fn wait_for_next_minute(start_minute: i64) {
    while minute_now() <= start_minute {
        sleep(Duration::from_millis(100));
    }
    sleep(Duration::from_millis(1500));
}

/// `app.<yyyy-MM-dd-HH-mm>`: the name the appender gives the file of minute `minute`.
fn file_name(minute: i64) -> String {
    let d = OffsetDateTime::from_unix_timestamp(minute * 60).unwrap();
    format!(
        "app.{:04}-{:02}-{:02}-{:02}-{:02}",
        d.year(),
        d.month() as u8,
        d.day(),
        d.hour(),
        d.minute()
    )
}

fn dump(dir: &Path) -> Vec<(String, String)> {
    let mut out = Vec::new();
    for entry in std::fs::read_dir(dir).unwrap() {
        let path = entry.unwrap().path();
        if path.is_file() {
            out.push((
                path.file_name().unwrap().to_str().unwrap().to_string(),
                std::fs::read_to_string(&path).unwrap(),
            ));
        }
    }
    out.sort();
    out
}

#[repr(C)]
struct RLimit {
    cur: u64,
    max: u64,
}
const RLIMIT_NOFILE: i32 = 7;
extern "C" {
    fn getrlimit(resource: i32, rlim: *mut RLimit) -> i32;
    fn setrlimit(resource: i32, rlim: *const RLimit) -> i32;
}

/// A transient `EMFILE` at the instant of the rotation: nothing is wrong with the log
/// directory, and two seconds later nothing is wrong with the process either.
#[test]
fn a_transient_open_failure_misfiles_the_whole_next_period() {
    // keep the number of descriptors to exhaust small
    unsafe {
        let mut lim = RLimit { cur: 0, max: 0 };
        assert_eq!(getrlimit(RLIMIT_NOFILE, &mut lim), 0);
        lim.cur = 256.min(lim.max);
        assert_eq!(setrlimit(RLIMIT_NOFILE, &lim), 0);
    }

    settle();
    let dir = tempfile::tempdir().unwrap();
    let start = minute_now();
    let mut appender = RollingFileAppender::builder()
        .rotation(Rotation::MINUTELY)
        .filename_prefix("app")
        .build(dir.path())
        .unwrap();
    appender.write_all(b"before\n").unwrap();
    assert_eq!(minute_now(), start, "test setup: still in the first minute");

    wait_for_next_minute(start);

    // the process is out of file descriptors for a moment ...
    let mut hog = Vec::new();
    while let Ok(f) = File::open("/dev/null") {
        hog.push(f);
    }
    // ... and that moment is the first write of the new minute (prints "Couldn't create
    // writer for logs: ... Too many open files"; the write itself succeeds)
    appender.write_all(b"during\n").unwrap();
    drop(hog);

    // two seconds later everything is fine again
    sleep(Duration::from_secs(2));
    let minute_of_write = minute_now();
    assert_eq!(minute_of_write, start + 1, "test setup: still in the second minute");
    appender.write_all(b"after\n").unwrap();
    appender.flush().unwrap();

    let files = dump(dir.path());
    println!("{:#?}", files);
    let expected = file_name(minute_of_write);
    let landed_in = files
        .iter()
        .find(|(_, content)| content.contains("after\n"))
        .map(|(name, _)| name.clone());
    assert_eq!(
        landed_in.as_deref(),
        Some(expected.as_str()),
        "C16 clause `every buffer is stored in the file named for the rotation period that \
         contains the time of the write` violated: the write `after` was made in minute {} \
         with a healthy process and log directory, no other thread involved, but one failed \
         `open` two seconds earlier made the appender skip this period's rotation for good",
        expected
    );
}

/// The same error path with `max_log_files(1)`: pruning has already unlinked the live file
/// when the creation of its successor fails.  The failure is injected by a directory that
/// squats on the next file's name (stands for ENOSPC / EDQUOT / EMFILE-after-readdir ...).
#[test]
fn with_a_file_limit_of_one_a_failed_rotation_loses_the_whole_period() {
    settle();
    let dir = tempfile::tempdir().unwrap();
    let start = minute_now();
    let mut appender = RollingFileAppender::builder()
        .rotation(Rotation::MINUTELY)
        .filename_prefix("app")
        .max_log_files(1)
        .build(dir.path())
        .unwrap();
    appender.write_all(b"before\n").unwrap();
    assert_eq!(minute_now(), start, "test setup: still in the first minute");

    let squatter = dir.path().join(file_name(start + 1));
    std::fs::create_dir(&squatter).unwrap();

    wait_for_next_minute(start);

    appender.write_all(b"during\n").unwrap(); // rotation: prune, then `open` fails (EISDIR)
    std::fs::remove_dir(&squatter).unwrap(); // the obstacle is gone again
    sleep(Duration::from_secs(2));
    assert_eq!(minute_now(), start + 1, "test setup: still in the second minute");
    appender.write_all(b"after\n").unwrap(); // Ok(()) ...
    appender.flush().unwrap(); // Ok(()) ...

    let files = dump(dir.path());
    println!("log directory after the writes: {:#?}", files);
    let stored: String = files.iter().map(|(_, c)| c.as_str()).collect();
    assert!(
        stored.contains("during\n") && stored.contains("after\n"),
        "C16 clause `a write ... is never lost` violated: max_log_files(1); the rotation \
         unlinked the live file and then failed to create the new one, so the writes \
         `during` and `after` -- both reported Ok, both made in the current period -- are in \
         no file at all; log directory holds {:?}",
        files
    );
}
