//! C09 probe: a layer that emits an event from inside `on_event` (with a
//! *global* default dispatcher, where re-entrant dispatch is not suppressed)
//! clobbers the single-slot thread-local per-subscriber-filter state of the
//! event that is still being delivered.
#![cfg(all(feature = "registry", feature = "std"))]

use std::sync::{Arc, Mutex};
use tracing::Level;
use tracing_core::{Collect, Event};
use tracing_subscriber::{
    filter::LevelFilter, prelude::*, registry::LookupSpan, subscribe::Context, Subscribe,
};

#[derive(Clone, Default)]
struct Rec {
    log: Arc<Mutex<Vec<String>>>,
}

impl<C> Subscribe<C> for Rec
where
    C: Collect + for<'a> LookupSpan<'a>,
{
    fn on_event(&self, event: &Event<'_>, _: Context<'_, C>) {
        self.log
            .lock()
            .unwrap()
            .push(format!("event {}", event.metadata().level()));
    }
}

fn nested_warn() {
    tracing::warn!("emitted by layer X while it handles a DEBUG event");
}

/// An unfiltered layer that reports every DEBUG event it sees as a WARN event.
struct Echo;
impl<C> Subscribe<C> for Echo
where
    C: Collect + for<'a> LookupSpan<'a>,
{
    fn on_event(&self, event: &Event<'_>, _: Context<'_, C>) {
        if *event.metadata().level() == Level::DEBUG {
            nested_warn();
        }
    }
}

#[test]
fn nested_event_does_not_disturb_the_event_in_flight() {
    let a = Rec::default();
    tracing_subscriber::registry()
        .with(Echo)
        .with(a.clone().with_filter(LevelFilter::WARN))
        .init(); // global default: re-entrant dispatch is allowed

    // register the nested callsite up front (interest: always)
    nested_warn();
    assert_eq!(*a.log.lock().unwrap(), vec!["event WARN".to_string()]);
    a.log.lock().unwrap().clear();

    tracing::debug!("rejected by A's filter, accepted by Echo");

    assert_eq!(
        *a.log.lock().unwrap(),
        vec!["event WARN".to_string()],
        "C09 (every layer sees every notification exactly once): A (filtered to WARN) must see \
         exactly the nested WARN event and not the DEBUG event"
    );
}
