//! C09 demonstration: `Box<C>` and `Arc<C>` are provided as pass-through
//! wrappers for collectors (`Collect` and `LookupSpan` are implemented for
//! both), but they are not transparent: a stack that accepts a
//! per-subscriber-filtered layer when the collector is used directly refuses
//! the very same layer (panics in `with`) as soon as the collector underneath
//! is wrapped in a `Box` or an `Arc`, because the wrappers' `LookupSpan` impls
//! do not forward `register_filter` (the `Layered` wrapper does).
#![cfg(all(feature = "registry", feature = "std"))]

use std::{
    panic::{catch_unwind, AssertUnwindSafe},
    sync::{Arc, Mutex},
};
use tracing::Level;
use tracing_core::{span, Collect, Event};
use tracing_subscriber::{
    filter::LevelFilter, prelude::*, registry::LookupSpan, subscribe::Context, Subscribe,
};

type Log = Arc<Mutex<Vec<String>>>;

#[derive(Clone)]
struct Rec {
    name: &'static str,
    log: Log,
}

impl<C> Subscribe<C> for Rec
where
    C: Collect + for<'a> LookupSpan<'a>,
{
    fn on_new_span(&self, attrs: &span::Attributes<'_>, _: &span::Id, _: Context<'_, C>) {
        self.log
            .lock()
            .unwrap()
            .push(format!("{}:new_span {}", self.name, attrs.metadata().name()));
    }
    fn on_event(&self, event: &Event<'_>, _: Context<'_, C>) {
        self.log
            .lock()
            .unwrap()
            .push(format!("{}:event {}", self.name, event.metadata().level()));
    }
    fn on_close(&self, _: span::Id, _: Context<'_, C>) {
        self.log.lock().unwrap().push(format!("{}:close", self.name));
    }
}

fn rec(name: &'static str, log: &Log) -> Rec {
    Rec {
        name,
        log: log.clone(),
    }
}

fn workload() {
    tracing::event!(Level::ERROR, "e");
    tracing::event!(Level::INFO, "i");
    let _s = tracing::span!(Level::WARN, "warn_span");
}

fn run<C: Collect + Send + Sync + 'static>(
    build: impl FnOnce(&Log) -> C,
) -> Result<Vec<String>, String> {
    let log = Log::default();
    let res = catch_unwind(AssertUnwindSafe(|| {
        let c = build(&log);
        tracing::collect::with_default(c, workload);
    }));
    match res {
        Ok(()) => Ok(log.lock().unwrap().clone()),
        Err(p) => Err(p
            .downcast_ref::<String>()
            .cloned()
            .unwrap_or_else(|| "<panic>".into())),
    }
}

fn baseline() -> Vec<String> {
    run(|log| {
        tracing_subscriber::registry()
            .with(rec("A", log))
            .with(rec("B", log).with_filter(LevelFilter::WARN))
    })
    .expect("the unwrapped stack works")
}

#[test]
fn box_around_the_collector_is_transparent() {
    let base = baseline();
    let boxed = run(|log| {
        Box::new(tracing_subscriber::registry().with(rec("A", log)))
            .with(rec("B", log).with_filter(LevelFilter::WARN))
    });
    assert_eq!(
        Ok(base),
        boxed,
        "C09 (wrapping a collector in Box is transparent): the same layers on a Box'ed collector \
         do not observe the same notifications"
    );
}

#[test]
fn arc_around_the_collector_is_transparent() {
    let base = baseline();
    let arced = run(|log| {
        Arc::new(tracing_subscriber::registry().with(rec("A", log)))
            .with(rec("B", log).with_filter(LevelFilter::WARN))
    });
    assert_eq!(
        Ok(base),
        arced,
        "C09 (wrapping a collector in Arc is transparent): the same layers on an Arc'ed collector \
         do not observe the same notifications"
    );
}

#[test]
fn box_around_the_bare_registry_is_transparent() {
    let base = run(|log| {
        tracing_subscriber::registry().with(rec("B", log).with_filter(LevelFilter::WARN))
    })
    .expect("the unwrapped stack works");
    let boxed = run(|log| {
        Box::new(tracing_subscriber::registry()).with(rec("B", log).with_filter(LevelFilter::WARN))
    });
    assert_eq!(
        Ok(base),
        boxed,
        "C09 (wrapping a collector in Box is transparent): Box<Registry> does not behave like Registry"
    );
}
