//! C09 demonstration (unwinding path): when an inner layer's `on_event`
//! unwinds (here: the stock `fmt` layer formats a field whose `Debug` impl
//! panics, and the panic is caught -- as a tokio worker or a test harness
//! does), the layers *above* it never get their `on_event` for that event, so
//! a per-subscriber filter that had rejected the event never consumes its bit
//! in the thread-local `FilterState`. The bit stays set on that thread, and
//! the NEXT event from a callsite whose cached interest is `always` (so
//! `enabled` is not re-run) is silently withheld from the filtered layer:
//! the layer does not see a notification it must see exactly once.
#![cfg(all(feature = "registry", feature = "std", feature = "fmt"))]

use std::{
    fmt,
    panic::{catch_unwind, AssertUnwindSafe},
    sync::{Arc, Mutex},
};
use tracing_core::{span, Collect, Event};
use tracing_subscriber::{
    filter::LevelFilter, prelude::*, registry::LookupSpan, subscribe::Context, Subscribe,
};

#[derive(Clone, Default)]
struct Rec {
    log: Arc<Mutex<Vec<String>>>,
}

impl<C> Subscribe<C> for Rec
where
    C: Collect + for<'a> LookupSpan<'a>,
{
    fn on_new_span(&self, attrs: &span::Attributes<'_>, _: &span::Id, _: Context<'_, C>) {
        self.log
            .lock()
            .unwrap()
            .push(format!("new_span {}", attrs.metadata().name()));
    }
    fn on_event(&self, event: &Event<'_>, _: Context<'_, C>) {
        self.log
            .lock()
            .unwrap()
            .push(format!("event {}", event.metadata().level()));
    }
}

struct Bomb;
impl fmt::Debug for Bomb {
    fn fmt(&self, _: &mut fmt::Formatter<'_>) -> fmt::Result {
        panic!("user Debug impl panics")
    }
}

fn emit_warn() {
    // one single callsite, so that its interest is registered (and cached as
    // `always`) before the panic happens.
    tracing::warn!("must be seen by A");
}

#[test]
fn filtered_layer_sees_every_event_after_a_neighbour_unwound() {
    let a = Rec::default();
    let stack = tracing_subscriber::registry()
        // inner layer: the stock fmt layer, unfiltered, writing to a sink
        .with(tracing_subscriber::fmt::subscriber().with_writer(std::io::sink))
        // outer layer: recording layer A, filtered to WARN and above
        .with(a.clone().with_filter(LevelFilter::WARN));

    tracing::collect::with_default(stack, || {
        emit_warn();
        assert_eq!(
            *a.log.lock().unwrap(),
            vec!["event WARN".to_string()],
            "sanity: A sees the WARN event"
        );

        // A DEBUG event (rejected by A's filter, accepted by the fmt layer)
        // whose field panics while the fmt layer formats it.
        let r = catch_unwind(AssertUnwindSafe(|| {
            tracing::debug!(value = ?Bomb, "formatting this panics inside the fmt layer");
        }));
        assert!(r.is_err(), "sanity: the fmt layer unwound");

        // The very same WARN callsite again, on the same thread.
        emit_warn();
    });

    assert_eq!(
        *a.log.lock().unwrap(),
        vec!["event WARN".to_string(), "event WARN".to_string()],
        "C09 (every layer sees every notification exactly once): after the inner fmt layer \
         unwound out of on_event, the filtered layer A did not receive the next WARN event"
    );
}
