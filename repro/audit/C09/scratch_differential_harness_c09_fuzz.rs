//! scratch differential harness (not a deliverable)
#![cfg(all(feature = "registry", feature = "std"))]
#![allow(dead_code)]

use std::sync::{Arc, Mutex};
use tracing::Level;
use tracing_core::{collect::Interest, span, Collect, Dispatch, Event, Metadata};
use tracing_subscriber::{
    filter::LevelFilter,
    prelude::*,
    registry::LookupSpan,
    reload,
    subscribe::{Context, Filter, Identity, Layered},
    Registry, Subscribe,
};

type Log = Arc<Mutex<Vec<String>>>;

#[derive(Clone)]
struct Rec {
    name: &'static str,
    log: Log,
}

impl Rec {
    fn push(&self, s: String) {
        self.log.lock().unwrap().push(format!("{}:{}", self.name, s));
    }
}

impl<C> Subscribe<C> for Rec
where
    C: Collect + for<'a> LookupSpan<'a>,
{
    fn on_register_dispatch(&self, _: &Dispatch) {
        self.push("register_dispatch".into());
    }
    fn on_subscribe(&mut self, _: &mut C) {
        self.push("on_subscribe".into());
    }
    fn on_new_span(&self, attrs: &span::Attributes<'_>, _: &span::Id, _: Context<'_, C>) {
        self.push(format!("new_span {}", attrs.metadata().name()));
    }
    fn on_record(&self, _: &span::Id, _: &span::Record<'_>, _: Context<'_, C>) {
        self.push("record".into());
    }
    fn on_follows_from(&self, _: &span::Id, _: &span::Id, _: Context<'_, C>) {
        self.push("follows".into());
    }
    fn on_event(&self, event: &Event<'_>, _: Context<'_, C>) {
        self.push(format!("event {}", event.metadata().level()));
    }
    fn on_enter(&self, _: &span::Id, _: Context<'_, C>) {
        self.push("enter".into());
    }
    fn on_exit(&self, _: &span::Id, _: Context<'_, C>) {
        self.push("exit".into());
    }
    fn on_close(&self, _: span::Id, _: Context<'_, C>) {
        self.push("close".into());
    }
}

#[derive(Clone)]
struct RecFilter {
    name: &'static str,
    log: Log,
    level: LevelFilter,
}
impl RecFilter {
    fn push(&self, s: String) {
        self.log.lock().unwrap().push(format!("{}:{}", self.name, s));
    }
}
impl<C> Filter<C> for RecFilter {
    fn enabled(&self, meta: &Metadata<'_>, _: &Context<'_, C>) -> bool {
        meta.level() <= &self.level
    }
    fn callsite_enabled(&self, meta: &'static Metadata<'static>) -> Interest {
        if meta.level() <= &self.level {
            Interest::always()
        } else {
            Interest::never()
        }
    }
    fn max_level_hint(&self) -> Option<LevelFilter> {
        Some(self.level)
    }
    fn on_new_span(&self, _: &span::Attributes<'_>, _: &span::Id, _: Context<'_, C>) {
        self.push("f_new_span".into());
    }
    fn on_record(&self, _: &span::Id, _: &span::Record<'_>, _: Context<'_, C>) {
        self.push("f_record".into());
    }
    fn on_enter(&self, _: &span::Id, _: Context<'_, C>) {
        self.push("f_enter".into());
    }
    fn on_exit(&self, _: &span::Id, _: Context<'_, C>) {
        self.push("f_exit".into());
    }
    fn on_close(&self, _: span::Id, _: Context<'_, C>) {
        self.push("f_close".into());
    }
}

type Dyn<C> = Box<dyn Subscribe<C> + Send + Sync + 'static>;

const N_WRAP: usize = 8;
fn wrap<C>(kind: usize, x: Dyn<C>) -> Dyn<C>
where
    C: Collect + for<'a> LookupSpan<'a> + Send + Sync,
{
    match kind {
        0 => x,
        1 => Box::new(x).boxed(),
        2 => Some(x).boxed(),
        3 => vec![x].boxed(),
        4 => reload::Subscriber::new(x).0.boxed(),
        5 => x.and_then(Identity::new()).boxed(),
        6 => Identity::new().and_then(x).boxed(),
        7 => Some(vec![reload::Subscriber::new(x).0]).boxed(),
        _ => unreachable!(),
    }
}
fn wrap_name(kind: usize) -> &'static str {
    ["plain", "box", "some", "vec1", "reload", "x.and_then(id)", "id.and_then(x)", "some(vec[reload])"][kind]
}

const N_FWRAP: usize = 5;
fn fwrap<C>(kind: usize, f: RecFilter) -> Box<dyn Filter<C> + Send + Sync + 'static>
where
    C: Collect + for<'a> LookupSpan<'a> + Send + Sync,
{
    match kind {
        0 => Box::new(f),
        1 => Box::new(Some(f)),
        2 => {
            let a: Arc<dyn Filter<C> + Send + Sync> = Arc::new(f);
            Box::new(a)
        }
        3 => Box::new(reload::Subscriber::new(f).0),
        4 => {
            let b: Box<dyn Filter<C> + Send + Sync> = Box::new(f);
            Box::new(Some(b))
        }
        _ => unreachable!(),
    }
}

/// element kinds: 0 = plain Rec; 1 = Rec filtered WARN; 2 = None; 3 = empty vec
#[derive(Clone, Copy, Debug, PartialEq)]
struct El {
    kind: usize,
    wrap: usize,
    fwrap: usize,
}

fn make<C>(el: El, name: &'static str, log: &Log) -> Dyn<C>
where
    C: Collect + for<'a> LookupSpan<'a> + Send + Sync,
{
    let rec = Rec {
        name,
        log: log.clone(),
    };
    let base: Dyn<C> = match el.kind {
        0 => rec.boxed(),
        1 => rec
            .with_filter(fwrap::<C>(
                el.fwrap,
                RecFilter {
                    name,
                    log: log.clone(),
                    level: LevelFilter::WARN,
                },
            ))
            .boxed(),
        2 => None::<Rec>.boxed(),
        3 => Vec::<Rec>::new().boxed(),
        4 => LevelFilter::INFO.boxed(),
        _ => unreachable!(),
    };
    wrap(el.wrap, base)
}

fn workload() {
    tracing::event!(Level::ERROR, "e");
    tracing::event!(Level::INFO, "i");
    let s = tracing::span!(Level::INFO, "info_span", x = tracing::field::Empty);
    let w = tracing::span!(Level::WARN, "warn_span", x = tracing::field::Empty);
    s.record("x", 1);
    w.record("x", 1);
    w.follows_from(&s);
    s.follows_from(&w);
    {
        let _e = s.enter();
        tracing::event!(Level::WARN, "w");
        let _e2 = w.enter();
        tracing::event!(Level::DEBUG, "d");
        let child = tracing::span!(Level::ERROR, "child");
        let c2 = child.clone();
        drop(child);
        drop(c2);
    }
    drop(s);
    drop(w);
    tracing::event!(Level::WARN, "w2");
}

type C0 = Registry;
type C1 = Layered<Dyn<C0>, C0>;
type C2 = Layered<Dyn<C1>, C1>;
type C3 = Layered<Dyn<C2>, C2>;

fn run(els: &[El]) -> (Vec<String>, Option<LevelFilter>) {
    let log: Log = Default::default();
    let names = ["A", "B", "C"];
    let hint;
    match els.len() {
        1 => {
            let c = tracing_subscriber::registry().with(make::<C0>(els[0], names[0], &log));
            hint = c.max_level_hint();
            tracing::collect::with_default(c, workload);
        }
        2 => {
            let c = tracing_subscriber::registry()
                .with(make::<C0>(els[0], names[0], &log))
                .with(make::<C1>(els[1], names[1], &log));
            hint = c.max_level_hint();
            tracing::collect::with_default(c, workload);
        }
        3 => {
            let c = tracing_subscriber::registry()
                .with(make::<C0>(els[0], names[0], &log))
                .with(make::<C1>(els[1], names[1], &log))
                .with(make::<C2>(els[2], names[2], &log));
            hint = c.max_level_hint();
            tracing::collect::with_default(c, workload);
        }
        _ => unreachable!(),
    }
    let v = log.lock().unwrap().clone();
    (v, hint)
}

fn per_layer(log: &[String], name: &str) -> Vec<String> {
    log.iter()
        .filter(|l| l.starts_with(&format!("{}:", name)))
        .filter(|l| !l.ends_with("on_subscribe"))
        .cloned()
        .collect()
}

#[test]
fn fuzz_two() {
    let mut bad = 0;
    let mut seen = std::collections::BTreeSet::new();
    for k0 in 0..2 {
        for k1 in 0..2 {
            let base = [
                El { kind: k0, wrap: 0, fwrap: 0 },
                El { kind: k1, wrap: 0, fwrap: 0 },
            ];
            let (blog, bhint) = run(&base);
            for w0 in 0..N_WRAP {
                for w1 in 0..N_WRAP {
                    for f0 in 0..(if k0 == 1 { N_FWRAP } else { 1 }) {
                        for f1 in 0..(if k1 == 1 { N_FWRAP } else { 1 }) {
                            let els = [
                                El { kind: k0, wrap: w0, fwrap: f0 },
                                El { kind: k1, wrap: w1, fwrap: f1 },
                            ];
                            let (l, h) = run(&els);
                            for n in ["A", "B"] {
                                if per_layer(&l, n) != per_layer(&blog, n) {
                                    let key = format!(
                                        "kinds=({},{}) wraps=({},{}) fwraps=({},{}) layer {}",
                                        k0, k1, wrap_name(w0), wrap_name(w1), f0, f1, n
                                    );
                                    if seen.insert(key.clone()) {
                                        println!("DIFF {}\n  base={:?}\n  got ={:?}", key, per_layer(&blog, n), per_layer(&l, n));
                                    }
                                    bad += 1;
                                }
                            }
                            if h != bhint {
                                println!("HINT kinds=({},{}) wraps=({},{}) fwraps=({},{}): base {:?} got {:?}", k0, k1, wrap_name(w0), wrap_name(w1), f0, f1, bhint, h);
                            }
                            // order check: whole log order of A vs B for same notification
                        }
                    }
                }
            }
        }
    }
    assert_eq!(bad, 0);
}

#[test]
fn fuzz_absent() {
    // insert None / empty vec (wrapped) at any position in a 2-stack; compare with base
    let mut bad = 0;
    for k0 in 0..2 {
        for k1 in 0..2 {
            let a = El { kind: k0, wrap: 0, fwrap: 0 };
            let b = El { kind: k1, wrap: 0, fwrap: 0 };
            let (blog, bhint) = run(&[a, b]);
            for absent_kind in 2..4 {
                for w in 0..N_WRAP {
                    let n = El { kind: absent_kind, wrap: w, fwrap: 0 };
                    for pos in 0..3 {
                        let (els, names): (Vec<El>, [&str; 2]) = match pos {
                            0 => (vec![n, a, b], ["B", "C"]),
                            1 => (vec![a, n, b], ["A", "C"]),
                            _ => (vec![a, b, n], ["A", "B"]),
                        };
                        let (l, h) = run(&els);
                        for (bn, gn) in ["A", "B"].iter().zip(names.iter()) {
                            let bl: Vec<String> = per_layer(&blog, bn).iter().map(|s| s[2..].to_string()).collect();
                            let gl: Vec<String> = per_layer(&l, gn).iter().map(|s| s[2..].to_string()).collect();
                            if bl != gl {
                                println!("ABSENT-DIFF kinds=({},{}) absent={} wrap={} pos={} layer {}\n  base={:?}\n  got ={:?}", k0, k1, absent_kind, wrap_name(w), pos, bn, bl, gl);
                                bad += 1;
                            }
                        }
                        if h != bhint {
                            println!("ABSENT-HINT kinds=({},{}) absent={} wrap={} pos={}: base {:?} got {:?}", k0, k1, absent_kind, wrap_name(w), pos, bhint, h);
                        }
                    }
                }
            }
        }
    }
    assert_eq!(bad, 0);
}

#[test]
fn fuzz_three() {
    let mut bad = 0;
    let kinds = [0usize, 1, 4];
    for &k0 in &kinds {
        for &k1 in &kinds {
            for &k2 in &kinds {
                let base = [
                    El { kind: k0, wrap: 0, fwrap: 0 },
                    El { kind: k1, wrap: 0, fwrap: 0 },
                    El { kind: k2, wrap: 0, fwrap: 0 },
                ];
                let (blog, bhint) = run(&base);
                for w0 in 0..N_WRAP {
                    for w1 in 0..N_WRAP {
                        for w2 in 0..N_WRAP {
                            let is_reload = |w: usize| w == 4 || w == 7;
                            if (k0 == 1 && is_reload(w0)) || (k1 == 1 && is_reload(w1)) || (k2 == 1 && is_reload(w2)) {
                                continue;
                            }
                            let els = [
                                El { kind: k0, wrap: w0, fwrap: 0 },
                                El { kind: k1, wrap: w1, fwrap: 0 },
                                El { kind: k2, wrap: w2, fwrap: 0 },
                            ];
                            let (l, h) = run(&els);
                            for n in ["A", "B", "C"] {
                                if per_layer(&l, n) != per_layer(&blog, n) {
                                    println!(
                                        "DIFF3 kinds=({},{},{}) wraps=({},{},{}) layer {}\n  base={:?}\n  got ={:?}",
                                        k0, k1, k2, wrap_name(w0), wrap_name(w1), wrap_name(w2), n, per_layer(&blog, n), per_layer(&l, n)
                                    );
                                    bad += 1;
                                }
                            }
                            if h != bhint && h < bhint && h.is_some() {
                                println!("HINT3 kinds=({},{},{}) wraps=({},{},{}): base {:?} got {:?}", k0, k1, k2, wrap_name(w0), wrap_name(w1), wrap_name(w2), bhint, h);
                            }
                        }
                    }
                }
            }
        }
    }
    assert_eq!(bad, 0);
}

fn rec(name: &'static str, log: &Log) -> Rec {
    Rec { name, log: log.clone() }
}
fn recf(name: &'static str, log: &Log) -> RecFilter {
    RecFilter { name, log: log.clone(), level: LevelFilter::WARN }
}

fn run_c<C: Collect + Send + Sync + 'static>(c: C, log: &Log) -> Vec<String> {
    tracing::collect::with_default(c, workload);
    let v = log.lock().unwrap().clone();
    log.lock().unwrap().clear();
    v.into_iter().filter(|l| !l.ends_with("on_subscribe")).collect()
}

#[test]
fn collector_wrappers_unfiltered() {
    let log: Log = Default::default();
    let base = run_c(tracing_subscriber::registry().with(rec("A", &log)).with(rec("B", &log)), &log);
    let v = run_c(Box::new(tracing_subscriber::registry()).with(rec("A", &log)).with(rec("B", &log)), &log);
    assert_eq!(base, v, "box registry");
    let v = run_c(Arc::new(tracing_subscriber::registry()).with(rec("A", &log)).with(rec("B", &log)), &log);
    assert_eq!(base, v, "arc registry");
    let v = run_c(Box::new(tracing_subscriber::registry().with(rec("A", &log))).with(rec("B", &log)), &log);
    assert_eq!(base, v, "box mid");
    let v = run_c(Arc::new(tracing_subscriber::registry().with(rec("A", &log))).with(rec("B", &log)), &log);
    assert_eq!(base, v, "arc mid");
    let v = run_c(Arc::new(Box::new(tracing_subscriber::registry().with(rec("A", &log)).with(rec("B", &log)))), &log);
    assert_eq!(base, v, "arc box outer");
    let d: Arc<dyn Collect + Send + Sync> = Arc::new(tracing_subscriber::registry().with(rec("A", &log)).with(rec("B", &log)));
    let v = run_c(d, &log);
    assert_eq!(base, v, "arc dyn outer");
}

#[test]
fn collector_wrappers_filtered_below() {
    let log: Log = Default::default();
    let base = run_c(tracing_subscriber::registry().with(rec("A", &log).with_filter(recf("A", &log))).with(rec("B", &log)), &log);
    let v = run_c(Box::new(tracing_subscriber::registry().with(rec("A", &log).with_filter(recf("A", &log)))).with(rec("B", &log)), &log);
    assert_eq!(base, v, "box mid");
    let v = run_c(Arc::new(tracing_subscriber::registry().with(rec("A", &log).with_filter(recf("A", &log)))).with(rec("B", &log)), &log);
    assert_eq!(base, v, "arc mid");
}

#[test]
fn collector_wrappers_filtered_above_box() {
    let log: Log = Default::default();
    let base = run_c(tracing_subscriber::registry().with(rec("A", &log)).with(rec("B", &log).with_filter(recf("B", &log))), &log);
    let v = run_c(Box::new(tracing_subscriber::registry().with(rec("A", &log))).with(rec("B", &log).with_filter(recf("B", &log))), &log);
    assert_eq!(base, v, "box mid");
}
#[test]
fn collector_wrappers_filtered_above_arc() {
    let log: Log = Default::default();
    let base = run_c(tracing_subscriber::registry().with(rec("A", &log)).with(rec("B", &log).with_filter(recf("B", &log))), &log);
    let v = run_c(Arc::new(tracing_subscriber::registry().with(rec("A", &log))).with(rec("B", &log).with_filter(recf("B", &log))), &log);
    assert_eq!(base, v, "arc mid");
}
