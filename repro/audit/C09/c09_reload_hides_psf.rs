//! C09 demonstration: wrapping a per-subscriber-filtered layer in a reload
//! handle (`reload::Subscriber`) is NOT transparent: its unfiltered neighbour
//! stops receiving events that it received before the wrapper was added.
#![cfg(all(feature = "registry", feature = "std"))]

use std::sync::{Arc, Mutex};
use tracing::Level;
use tracing_core::{span, Collect, Event};
use tracing_subscriber::{
    filter::LevelFilter, prelude::*, registry::LookupSpan, reload, subscribe::Context, Subscribe,
};

#[derive(Clone, Default)]
struct Rec {
    log: Arc<Mutex<Vec<String>>>,
}

impl Rec {
    fn take(&self) -> Vec<String> {
        std::mem::take(&mut *self.log.lock().unwrap())
    }
}

impl<C> Subscribe<C> for Rec
where
    C: Collect + for<'a> LookupSpan<'a>,
{
    fn on_new_span(&self, attrs: &span::Attributes<'_>, _: &span::Id, _: Context<'_, C>) {
        self.log
            .lock()
            .unwrap()
            .push(format!("new_span {}", attrs.metadata().name()));
    }
    fn on_event(&self, event: &Event<'_>, _: Context<'_, C>) {
        self.log
            .lock()
            .unwrap()
            .push(format!("event {}", event.metadata().level()));
    }
}

fn workload() {
    tracing::event!(Level::ERROR, "e");
    tracing::event!(Level::WARN, "w");
    tracing::event!(Level::INFO, "i");
    tracing::event!(Level::DEBUG, "d");
    let _s = tracing::span!(Level::INFO, "info_span");
}

#[test]
fn reload_wrapper_around_filtered_layer_is_transparent_to_neighbour() {
    // Baseline: A is filtered to WARN, B is an unfiltered neighbour.
    let (a, b) = (Rec::default(), Rec::default());
    let base = tracing_subscriber::registry()
        .with(a.clone().with_filter(LevelFilter::WARN))
        .with(b.clone());
    tracing::collect::with_default(base, workload);
    let (a_base, b_base) = (a.take(), b.take());

    // Same stack, but the filtered layer A sits behind a reload handle.
    let (a, b) = (Rec::default(), Rec::default());
    let (ra, _handle) = reload::Subscriber::new(a.clone().with_filter(LevelFilter::WARN));
    let wrapped = tracing_subscriber::registry().with(ra).with(b.clone());
    tracing::collect::with_default(wrapped, workload);
    let (a_wrapped, b_wrapped) = (a.take(), b.take());

    assert_eq!(
        a_base, a_wrapped,
        "C09 (wrappers are transparent): the reload-wrapped layer itself observes something different"
    );
    assert_eq!(
        b_base, b_wrapped,
        "C09 (wrappers are transparent / every layer sees every notification): wrapping the \
         filtered layer A in a reload handle changed what its unfiltered NEIGHBOUR B observes"
    );
}

#[test]
fn reload_wrapper_around_filtered_layer_is_transparent_to_inner_neighbour() {
    // Same, but the neighbour is *below* the reload-wrapped filtered layer.
    let (a, b) = (Rec::default(), Rec::default());
    let base = tracing_subscriber::registry()
        .with(b.clone())
        .with(a.clone().with_filter(LevelFilter::WARN));
    tracing::collect::with_default(base, workload);
    let (a_base, b_base) = (a.take(), b.take());

    let (a, b) = (Rec::default(), Rec::default());
    let (ra, _handle) = reload::Subscriber::new(a.clone().with_filter(LevelFilter::WARN));
    let wrapped = tracing_subscriber::registry().with(b.clone()).with(ra);
    tracing::collect::with_default(wrapped, workload);
    let (a_wrapped, b_wrapped) = (a.take(), b.take());

    assert_eq!(a_base, a_wrapped, "C09: reload-wrapped layer observes something different");
    assert_eq!(
        b_base, b_wrapped,
        "C09 (wrappers are transparent): wrapping the filtered layer A in a reload handle \
         changed what the unfiltered layer B underneath it observes"
    );
}
