//! C09 demonstration: "a veto from one layer's ... metadata check stops
//! delivery to all" and "None ... behaves as if absent" -- for the `Option<F>`
//! filter wrapper, whose `None` "allows everything".
//!
//! `Filtered::register_callsite` calls the wrapped subscriber's
//! `register_callsite` but throws its `Interest` away and reports only the
//! filter's own interest. `Filtered::enabled` does forward to the wrapped
//! subscriber ("it might have a global filter"), but `enabled` is only ever
//! called for callsites whose cached interest is `sometimes`. With a filter
//! that answers `Interest::always()` -- which is what `None::<F>` does for
//! every callsite -- a wrapped layer that answers `sometimes` / `never` and
//! vetoes in `enabled` is never asked: what it rejects is delivered to it and to
//! all of its neighbours. `layer.with_filter(None)` is therefore not the same
//! as `layer`.
#![cfg(feature = "registry")]

use std::sync::{Arc, Mutex};
use tracing::{level_filters::LevelFilter, Collect, Dispatch, Event, Metadata};
use tracing_core::{collect::Interest, span};
use tracing_subscriber::{prelude::*, subscribe::Context, Subscribe};

type Log = Arc<Mutex<Vec<String>>>;

static SERIAL: Mutex<()> = Mutex::new(());

struct Rec {
    name: &'static str,
    log: Log,
    /// `register_callsite` answers `sometimes` and `enabled` answers `false`
    /// for this target.
    veto_target: Option<&'static str>,
}

fn rec(name: &'static str, log: &Log) -> Rec {
    Rec {
        name,
        log: log.clone(),
        veto_target: None,
    }
}

fn veto(name: &'static str, log: &Log) -> Rec {
    Rec {
        name,
        log: log.clone(),
        veto_target: Some("vetoed"),
    }
}

impl Rec {
    fn push(&self, s: String) {
        self.log.lock().unwrap().push(format!("{}:{}", self.name, s));
    }
}

impl<C: Collect> Subscribe<C> for Rec {
    fn register_callsite(&self, m: &'static Metadata<'static>) -> Interest {
        if Some(m.target()) == self.veto_target {
            Interest::sometimes()
        } else {
            Interest::always()
        }
    }
    fn enabled(&self, m: &Metadata<'_>, _: Context<'_, C>) -> bool {
        Some(m.target()) != self.veto_target
    }
    fn on_new_span(&self, a: &span::Attributes<'_>, _: &span::Id, _: Context<'_, C>) {
        self.push(format!("new_span {}", a.metadata().name()));
    }
    fn on_event(&self, e: &Event<'_>, _: Context<'_, C>) {
        self.push(format!("event {} {}", e.metadata().level(), e.metadata().target()));
    }
    fn on_close(&self, _: span::Id, _: Context<'_, C>) {
        self.push("close".into());
    }
}

fn workload() {
    tracing::warn!(target: "plain", "seen by everybody");
    tracing::info!(target: "plain", "info, seen by everybody without a LevelFilter");
    tracing::warn!(target: "vetoed", "V's metadata check rejects this");
    let s = tracing::warn_span!(target: "vetoed", "vetoed_span");
    drop(s);
}

fn observe<C>(mk: impl FnOnce(&Log) -> C) -> Vec<String>
where
    C: Collect + Send + Sync + 'static,
{
    let log: Log = Default::default();
    let dispatch = Dispatch::new(mk(&log));
    tracing::dispatch::with_default(&dispatch, workload);
    drop(dispatch);
    let seen = log.lock().unwrap().clone();
    seen
}

/// `V` vetoes the target "vetoed" for the whole stack. Giving `V` a `None`
/// filter must change nothing.
#[test]
fn a_none_filter_cancels_the_wrapped_layers_veto() {
    let _serial = SERIAL.lock().unwrap_or_else(|e| e.into_inner());

    let base = observe(|log| {
        tracing_subscriber::registry()
            .with(rec("A", log))
            .with(veto("V", log))
    });
    assert!(
        !base.iter().any(|l| l.contains("vetoed")),
        "sanity: V's veto stops delivery to all, got {:#?}",
        base
    );

    let with_none_filter = observe(|log| {
        tracing_subscriber::registry()
            .with(rec("A", log))
            .with(veto("V", log).with_filter(None::<LevelFilter>))
    });
    assert_eq!(
        with_none_filter, base,
        "C09 `None behaves as if absent` / `a veto from one layer's metadata check stops delivery \
         to all` violated: v.with_filter(None) [left] is not v [right] -- the event and span V \
         rejects are delivered to V and to its neighbour A"
    );
}

/// The same with nothing but library types: `LevelFilter::WARN` used as a
/// (global) subscriber, given a `None` per-subscriber filter.
#[test]
fn a_none_filter_cancels_a_global_level_filter() {
    let _serial = SERIAL.lock().unwrap_or_else(|e| e.into_inner());

    let base = observe(|log| {
        tracing_subscriber::registry()
            .with(rec("A", log))
            .with(LevelFilter::WARN)
    });
    assert!(
        !base.iter().any(|l| l.contains("INFO")),
        "sanity: the global LevelFilter::WARN keeps INFO away from A, got {:#?}",
        base
    );

    let with_none_filter = observe(|log| {
        tracing_subscriber::registry()
            .with(rec("A", log))
            .with(LevelFilter::WARN.with_filter(None::<LevelFilter>))
    });
    assert_eq!(
        with_none_filter, base,
        "C09 `None behaves as if absent` violated: LevelFilter::WARN.with_filter(None) [left] no \
         longer keeps INFO records away from the neighbour A as LevelFilter::WARN does [right]"
    );
}
