//! C09 demonstration: "Wrapping a collector ... in the provided pass-through
//! wrappers (Box, Arc, ...) changes neither what it observes nor what its
//! neighbours observe."
//!
//! `Layered::new` decides whether the value below a subscriber is the
//! `Registry` by comparing `TypeId`s. `Box<Registry>` and `Arc<Registry>` are
//! collectors (and `LookupSpan`s that forward `register_filter`), but they are
//! not *that* type: `inner_is_registry`, and with it
//! `inner_has_subscriber_filter`, are `false` for the `Layered` directly above
//! them. When a neighbour's per-subscriber filter statically rejects a
//! callsite, the registry answers `Interest::never()` (the sum of the
//! per-subscriber filters' interests) and `Layered::pick_interest` of the
//! *unfiltered* layer passes that `never` on instead of turning it into
//! `sometimes`: the unfiltered layer never sees the span or event again.
#![cfg(feature = "registry")]

use std::sync::{Arc, Mutex};
use tracing::{level_filters::LevelFilter, Collect, Dispatch, Event};
use tracing_core::span;
use tracing_subscriber::{prelude::*, subscribe::Context, Subscribe};

type Log = Arc<Mutex<Vec<String>>>;

static SERIAL: Mutex<()> = Mutex::new(());

/// A plain recording layer: no filter, no veto, no level hint.
struct Rec {
    name: &'static str,
    log: Log,
}

fn rec(name: &'static str, log: &Log) -> Rec {
    Rec {
        name,
        log: log.clone(),
    }
}

impl Rec {
    fn push(&self, s: String) {
        self.log.lock().unwrap().push(format!("{}:{}", self.name, s));
    }
}

impl<C: Collect> Subscribe<C> for Rec {
    fn on_new_span(&self, a: &span::Attributes<'_>, _: &span::Id, _: Context<'_, C>) {
        self.push(format!("new_span {}", a.metadata().name()));
    }
    fn on_record(&self, _: &span::Id, _: &span::Record<'_>, _: Context<'_, C>) {
        self.push("record".into());
    }
    fn on_event(&self, e: &Event<'_>, _: Context<'_, C>) {
        self.push(format!("event {}", e.metadata().level()));
    }
    fn on_enter(&self, _: &span::Id, _: Context<'_, C>) {
        self.push("enter".into());
    }
    fn on_exit(&self, _: &span::Id, _: Context<'_, C>) {
        self.push("exit".into());
    }
    fn on_close(&self, _: span::Id, _: Context<'_, C>) {
        self.push("close".into());
    }
}

fn workload() {
    let outer = tracing::info_span!("info_span");
    outer.in_scope(|| {
        tracing::info!("info event");
        tracing::debug!("debug event");
        let inner = tracing::debug_span!("debug_span", x = tracing::field::Empty);
        inner.record("x", 1);
        inner.in_scope(|| tracing::trace!("trace event"));
    });
}

fn observe<C>(mk: impl FnOnce(&Log) -> C) -> Vec<String>
where
    C: Collect + Send + Sync + 'static,
{
    let log: Log = Default::default();
    let dispatch = Dispatch::new(mk(&log));
    tracing::dispatch::with_default(&dispatch, workload);
    drop(dispatch);
    let seen = log.lock().unwrap().clone();
    seen
}

/// What the *unfiltered* layer `ALL` is told; its neighbour `INFO_ONLY` has a
/// per-subscriber `LevelFilter::INFO`.
fn seen_by_all(log: Vec<String>) -> Vec<String> {
    log.into_iter().filter(|l| l.starts_with("ALL:")).collect()
}

#[test]
fn boxing_the_registry_hides_records_from_an_unfiltered_neighbour() {
    let _serial = SERIAL.lock().unwrap_or_else(|e| e.into_inner());

    let base = seen_by_all(observe(|log| {
        tracing_subscriber::registry()
            .with(rec("ALL", log))
            .with(rec("INFO_ONLY", log).with_filter(LevelFilter::INFO))
    }));
    assert!(
        base.contains(&"ALL:event DEBUG".to_string())
            && base.contains(&"ALL:new_span debug_span".to_string())
            && base.contains(&"ALL:event TRACE".to_string()),
        "sanity: on a bare Registry the unfiltered layer sees the DEBUG and TRACE records, got {:#?}",
        base
    );

    let boxed = seen_by_all(observe(|log| {
        Box::new(tracing_subscriber::registry())
            .with(rec("ALL", log))
            .with(rec("INFO_ONLY", log).with_filter(LevelFilter::INFO))
    }));
    assert_eq!(
        boxed, base,
        "C09 `wrappers are transparent` violated: with the Registry wrapped in a Box [left] the \
         unfiltered layer ALL no longer observes what it observes on the bare Registry [right]"
    );
}

#[test]
fn arcing_the_registry_hides_records_from_an_unfiltered_neighbour() {
    let _serial = SERIAL.lock().unwrap_or_else(|e| e.into_inner());

    let base = seen_by_all(observe(|log| {
        tracing_subscriber::registry()
            .with(rec("ALL", log))
            .with(rec("INFO_ONLY", log).with_filter(LevelFilter::INFO))
    }));
    let arced = seen_by_all(observe(|log| {
        Arc::new(tracing_subscriber::registry())
            .with(rec("ALL", log))
            .with(rec("INFO_ONLY", log).with_filter(LevelFilter::INFO))
    }));
    assert_eq!(
        arced, base,
        "C09 `wrappers are transparent` violated: with the Registry wrapped in an Arc [left] the \
         unfiltered layer ALL no longer observes what it observes on the bare Registry [right]"
    );
}
