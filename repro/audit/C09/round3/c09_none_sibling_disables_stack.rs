//! C09 demonstration: "None or an empty Vec behaves as if absent".
//!
//! `Layered` asks whether a subscriber "is `None`" by downcasting to the
//! crate-private `NoneLayerMarker`. `Layered::downcast_raw` and
//! `Vec::downcast_raw` forward that query to their children, so every composite
//! that merely *contains* a `None` somewhere (`a.and_then(None)`,
//! `vec![None, Some(a)]`) answers "I am None" although it also holds a real
//! subscriber. `Layered::pick_level_hint` and the per-subscriber-filter
//! detection then apply the "this side is absent" rules to a side that is not
//! absent at all.
#![cfg(feature = "registry")]

use std::sync::{Arc, Mutex};
use tracing::{level_filters::LevelFilter, Collect, Dispatch, Event, Metadata};
use tracing_core::{collect::Interest, span};
use tracing_subscriber::{prelude::*, subscribe::Context, Subscribe};

type Log = Arc<Mutex<Vec<String>>>;

/// Tests share the global callsite cache and the global max level: run them one
/// at a time, and never keep a `Dispatch` alive across scenarios.
static SERIAL: Mutex<()> = Mutex::new(());

#[derive(Clone)]
struct Rec {
    name: &'static str,
    log: Log,
    /// a max level hint and nothing else (no veto in `enabled`)
    hint: Option<LevelFilter>,
    /// `register_callsite` answers `sometimes` and `enabled` answers `false`
    /// for this target: a global veto.
    veto_target: Option<&'static str>,
}

fn rec(name: &'static str, log: &Log) -> Rec {
    Rec {
        name,
        log: log.clone(),
        hint: None,
        veto_target: None,
    }
}

impl Rec {
    fn push(&self, s: String) {
        self.log.lock().unwrap().push(format!("{}:{}", self.name, s));
    }
}

impl<C: Collect> Subscribe<C> for Rec {
    fn register_callsite(&self, m: &'static Metadata<'static>) -> Interest {
        if Some(m.target()) == self.veto_target {
            Interest::sometimes()
        } else {
            Interest::always()
        }
    }
    fn enabled(&self, m: &Metadata<'_>, _: Context<'_, C>) -> bool {
        Some(m.target()) != self.veto_target
    }
    fn max_level_hint(&self) -> Option<LevelFilter> {
        self.hint
    }
    fn on_new_span(&self, a: &span::Attributes<'_>, _: &span::Id, _: Context<'_, C>) {
        self.push(format!("new_span {}", a.metadata().name()));
    }
    fn on_event(&self, e: &Event<'_>, _: Context<'_, C>) {
        self.push(format!("event {} {}", e.metadata().level(), e.metadata().target()));
    }
    fn on_enter(&self, _: &span::Id, _: Context<'_, C>) {
        self.push("enter".into());
    }
    fn on_exit(&self, _: &span::Id, _: Context<'_, C>) {
        self.push("exit".into());
    }
    fn on_close(&self, _: span::Id, _: Context<'_, C>) {
        self.push("close".into());
    }
}

fn workload() {
    let s = tracing::info_span!("s");
    s.in_scope(|| {
        tracing::info!("info event");
        tracing::debug!("debug event");
    });
    drop(s);
    tracing::info!(target: "veto_meta", "event vetoed by the plain layer's metadata check");
}

/// Runs the workload against the stack built by `mk` and returns
/// (the stack's max level hint, everything the recording layers were told).
fn observe<C>(mk: impl FnOnce(&Log) -> C) -> (Option<LevelFilter>, Vec<String>)
where
    C: Collect + Send + Sync + 'static,
{
    let log: Log = Default::default();
    let collector = mk(&log);
    let hint = collector.max_level_hint();
    let dispatch = Dispatch::new(collector);
    tracing::dispatch::with_default(&dispatch, workload);
    drop(dispatch);
    let seen = log.lock().unwrap().clone();
    (hint, seen)
}

/// An entirely unfiltered stack: one recording layer `A` and two `None`s.
/// `None` must behave as if absent, so `A` must see exactly what it sees when
/// it is alone on the registry. Instead the stack's max level hint is `OFF` and
/// `A` is told nothing at all.
#[test]
fn none_siblings_switch_the_whole_stack_off() {
    let _serial = SERIAL.lock().unwrap_or_else(|e| e.into_inner());

    let (base_hint, base) = observe(|log| tracing_subscriber::registry().with(rec("A", log)));
    assert!(
        base.contains(&"A:event INFO c09_none_sibling_disables_stack".to_string()),
        "sanity: alone on the registry A sees the INFO event, got {:#?}",
        base
    );

    let (hint, seen) = observe(|log| {
        tracing_subscriber::registry()
            .with(None::<Rec>)
            .with(rec("A", log).and_then(None::<Rec>))
    });

    assert_eq!(
        (hint, &seen),
        (base_hint, &base),
        "C09 `None ... behaves as if absent` violated: (max_level_hint, what A observes) of \
         registry().with(None).with(a.and_then(None)) [left] differs from registry().with(a) \
         [right]: with two `None` siblings the recording layer A is told nothing at all"
    );
}

/// Same with the `Vec` flavour of the composite: `vec![None, Some(a)]`.
#[test]
fn none_next_to_a_vec_holding_a_none_switches_the_stack_off() {
    let _serial = SERIAL.lock().unwrap_or_else(|e| e.into_inner());

    let (base_hint, base) = observe(|log| tracing_subscriber::registry().with(rec("A", log)));
    let (hint, seen) = observe(|log| {
        tracing_subscriber::registry()
            .with(None::<Rec>)
            .with(vec![None, Some(rec("A", log))])
    });
    assert_eq!(
        (hint, &seen),
        (base_hint, &base),
        "C09 `None ... behaves as if absent` violated: \
         registry().with(None).with(vec![None, Some(a)]) differs from registry().with(a)"
    );
}

/// A `None` in the same `and_then` tree as a layer that has a max level hint
/// erases that hint: the neighbour `A` starts to receive DEBUG records that the
/// same stack without the `None` never shows it.
#[test]
fn none_sibling_erases_a_level_hint() {
    let _serial = SERIAL.lock().unwrap_or_else(|e| e.into_inner());

    let hinted = |log: &Log| {
        let mut h = rec("H", log);
        h.hint = Some(LevelFilter::INFO);
        h
    };
    let (base_hint, base) =
        observe(|log| tracing_subscriber::registry().with(rec("A", log)).with(hinted(log)));
    let (hint, seen) = observe(|log| {
        tracing_subscriber::registry()
            .with(rec("A", log))
            .with(hinted(log).and_then(None::<Rec>))
    });
    assert_eq!(
        (hint, &seen),
        (base_hint, &base),
        "C09 `None ... behaves as if absent` violated: h.and_then(None) [left] loses h's max \
         level hint and the neighbour A observes DEBUG records it does not observe next to a \
         plain h [right]"
    );
}

/// A `None` in the same `and_then` tree as a plain layer `V` and a layer with a
/// per-subscriber filter makes the whole tree look "per-subscriber filtered":
/// `Layered::pick_interest` then throws away `V`'s `Interest::sometimes`, the
/// callsite is cached as `always`, `V::enabled` is never asked and the event `V`
/// vetoes is delivered to everybody.
#[test]
fn none_sibling_cancels_a_plain_layers_veto() {
    let _serial = SERIAL.lock().unwrap_or_else(|e| e.into_inner());

    let veto = |log: &Log| {
        let mut v = rec("V", log);
        v.veto_target = Some("veto_meta");
        v
    };
    let (_, base) = observe(|log| {
        tracing_subscriber::registry()
            .with(veto(log).and_then(rec("P", log).with_filter(LevelFilter::INFO)))
    });
    assert!(
        !base.iter().any(|l| l.contains("veto_meta")),
        "sanity: without the None, V's veto stops the event for everybody, got {:#?}",
        base
    );
    let (_, seen) = observe(|log| {
        tracing_subscriber::registry().with(
            veto(log)
                .and_then(None::<Rec>)
                .and_then(rec("P", log).with_filter(LevelFilter::INFO)),
        )
    });
    assert_eq!(
        seen, base,
        "C09 `a veto from one layer's metadata check stops delivery to all` / \
         `None behaves as if absent` violated: with a `None` and_then-ed to V the vetoed \
         event is delivered"
    );
}
