//! C06 demonstration: "... all of whose data stays readable for as long as any
//! descendant or captured span trace is alive".
//!
//! Every span's extensions live behind a `std::sync::RwLock` inside a *pooled*
//! `DataInner` slot. The stock `fmt` subscriber formats field values while it
//! holds `extensions_mut()`, so a single panic in a value's `Debug` impl (an
//! unwinding path, caught by the application with `catch_unwind` or by a worker
//! thread boundary) poisons the lock. From then on
//!
//!  1. `SpanData::extensions()` of that span panics ("Mutex poisoned") for every
//!     reader, although the span is alive and has live descendants: walking a
//!     descendant's scope and reading each ancestor's data is no longer possible;
//!  2. `DataInner::clear` ignores the poison when the span finally closes but
//!     never clears it, so the poisoned lock is handed to the next, unrelated
//!     span that re-uses the pooled slot: its data is unreadable from birth
//!     (with the `fmt` subscriber, creating that span panics).
#![cfg(all(feature = "registry", feature = "fmt", feature = "std"))]

use std::{
    fmt, io,
    panic::{catch_unwind, AssertUnwindSafe},
};
use tracing::{dispatch, field, Dispatch};
use tracing_subscriber::{
    prelude::*,
    registry::{LookupSpan, Registry},
};

struct Bomb;
impl fmt::Debug for Bomb {
    fn fmt(&self, _: &mut fmt::Formatter<'_>) -> fmt::Result {
        panic!("boom: a field value whose Debug impl panics")
    }
}

fn dispatch() -> Dispatch {
    Dispatch::new(
        Registry::default().with(tracing_subscriber::fmt::subscriber().with_writer(io::sink)),
    )
}

/// Walks `id`'s scope (leaf to root) and reads every span's data.
fn read_scope(dispatch: &Dispatch, id: &tracing::span::Id) -> Vec<&'static str> {
    let registry = dispatch.downcast_ref::<Registry>().unwrap();
    registry
        .span(id)
        .expect("span is alive")
        .scope()
        .map(|span| {
            let _data = span.extensions();
            span.name()
        })
        .collect()
}

#[test]
fn ancestors_stay_readable_after_a_caught_panic() {
    let dispatch = dispatch();
    dispatch::with_default(&dispatch, || {
        let root = tracing::info_span!("root", value = field::Empty);
        let leaf = tracing::info_span!(parent: &root, "leaf");
        let leaf_id = leaf.id().unwrap();

        assert_eq!(read_scope(&dispatch, &leaf_id), ["leaf", "root"]);

        // an unwinding path: the panic is caught and the program goes on.
        let res = catch_unwind(AssertUnwindSafe(|| {
            root.record("value", field::debug(Bomb));
        }));
        assert!(res.is_err(), "the Debug impl panics");

        // `root` is alive (we hold it) and has a live descendant (`leaf`).
        let walked = catch_unwind(AssertUnwindSafe(|| read_scope(&dispatch, &leaf_id)));
        assert!(
            walked.is_ok(),
            "C06 'all ancestors' data stays readable while a descendant is alive' violated: \
             reading the data of the spans in `leaf`'s scope panicked after an earlier, caught \
             panic inside `Span::record` on `root`"
        );
        assert_eq!(walked.unwrap(), ["leaf", "root"]);
    });
}

#[test]
fn a_new_span_in_a_reused_slot_is_readable() {
    let dispatch = dispatch();
    dispatch::with_default(&dispatch, || {
        {
            let doomed = tracing::info_span!("doomed", value = field::Empty);
            let res = catch_unwind(AssertUnwindSafe(|| {
                doomed.record("value", field::debug(Bomb));
            }));
            assert!(res.is_err(), "the Debug impl panics");
            // `doomed` closes here; its pooled slot is cleared and freed.
        }

        // A completely unrelated span that happens to get the pooled slot.
        let fresh = catch_unwind(AssertUnwindSafe(|| {
            let fresh = tracing::info_span!("fresh");
            let id = fresh.id().unwrap();
            let names = read_scope(&dispatch, &id);
            std::mem::forget(fresh);
            names
        }));
        assert!(
            fresh.is_ok(),
            "C06 'span data stays readable while the span is alive' violated: creating/reading a \
             brand-new span panicked, because it re-used the pooled slot of a closed span whose \
             extensions lock had been poisoned by an earlier, caught panic (the poison survives \
             `DataInner::clear`)"
        );
        assert_eq!(fresh.unwrap(), ["fresh"]);
    });
}
