//! C06 demonstration: the registry's per-thread span stack is keyed on a
//! *recycled* thread id (`thread_local::ThreadLocal`), and is never reset when
//! a thread terminates.
//!
//! A brand-new thread is therefore handed another (dead) thread's span stack
//! the first time it enters a span: once it has exited its own span again, the
//! dead thread's span is "current" on it, and every span or event it creates
//! without an explicit parent is parented to that foreign span.
//!
//! Two histories are shown:
//!
//! 1. `guard_owned_by_a_thread_local_is_exited_but_stays_current`: every
//!    `enter` is paired with an `exit` (the `EnteredSpan` guard is owned by a
//!    `thread_local!` and is dropped normally when the thread ends). The exit
//!    reaches `Registry::exit`, which silently ignores it because the
//!    `thread_local` crate has already released the thread's id.
//! 2. `thread_that_ends_inside_a_span_hands_it_to_the_next_thread`: the thread
//!    simply ends while a span is still entered (the guard is leaked).
#![cfg(all(feature = "registry", feature = "std"))]

use std::{
    cell::RefCell,
    sync::{Arc, Barrier, Mutex},
    thread,
};
use tracing::{dispatch, span::EnteredSpan, Dispatch};
use tracing_subscriber::{prelude::*, registry::LookupSpan, subscribe::Subscribe, Registry};

/// A subscriber that does nothing; it only makes the stack a `Layered` one, so
/// that closed spans are actually removed from the registry.
struct Noop;
impl<C: tracing::Collect> Subscribe<C> for Noop {}

/// Serializes the two tests: thread ids are a process-wide resource.
static SERIAL: Mutex<()> = Mutex::new(());

fn current_name(dispatch: &Dispatch) -> Option<&'static str> {
    dispatch.current_span().metadata().map(|m| m.name())
}

/// Spawns `n` fresh threads that are all alive at the same time (so that every
/// recycled thread id is handed out again). Each enters and exits one span of
/// its own, and then -- with nothing entered on it -- reports what the registry
/// says its current span is, and the parent the registry gives to a span
/// created without an explicit parent.
fn observe_fresh_threads(
    dispatch: &Dispatch,
    n: usize,
) -> Vec<(Option<&'static str>, Option<&'static str>)> {
    let barrier = Arc::new(Barrier::new(n));
    let handles: Vec<_> = (0..n)
        .map(|_| {
            let dispatch = dispatch.clone();
            let barrier = barrier.clone();
            thread::spawn(move || {
                let _default = dispatch::set_default(&dispatch);
                // The fresh thread enters and exits one span of its own. After
                // that, nothing is entered on this thread.
                let before = current_name(&dispatch);
                tracing::info_span!("own_span").in_scope(|| {
                    assert_eq!(current_name(&dispatch), Some("own_span"));
                });
                assert_eq!(before, None);
                let current = current_name(&dispatch);
                let parent = {
                    let fresh = tracing::info_span!("fresh_thread_span");
                    let registry = dispatch.downcast_ref::<Registry>().unwrap();
                    let parent = registry
                        .span(&fresh.id().unwrap())
                        .unwrap()
                        .parent()
                        .map(|p| p.name());
                    parent
                };
                barrier.wait();
                (current, parent)
            })
        })
        .collect();
    handles.into_iter().map(|h| h.join().unwrap()).collect()
}

thread_local! {
    /// A per-thread "worker" span that stays entered for the life of the thread.
    static WORKER: RefCell<Option<EnteredSpan>> = const { RefCell::new(None) };
}

#[test]
fn guard_owned_by_a_thread_local_is_exited_but_stays_current() {
    let _serial = SERIAL.lock().unwrap_or_else(|e| e.into_inner());
    let dispatch = Dispatch::new(Registry::default().with(Noop));

    // Thread A: enters `worker` and parks the guard in a thread-local. When the
    // thread ends the guard is dropped, i.e. the span IS exited on thread A.
    {
        let dispatch = dispatch.clone();
        thread::spawn(move || {
            let _default = dispatch::set_default(&dispatch);
            WORKER.with(|w| {
                *w.borrow_mut() = Some(tracing::info_span!("worker").entered());
            });
            assert_eq!(current_name(&dispatch), Some("worker"));
        })
        .join()
        .unwrap();
    }

    // Thread A is gone, and its only entered span was exited by the guard.
    let seen = observe_fresh_threads(&dispatch, 16);
    assert!(
        seen.iter().all(|(current, _)| current.is_none()),
        "C06 'current span ... independent of every other thread' violated: a thread on which \
         nothing is entered sees the dead thread's (already exited) span as current: {:?}",
        seen
    );
    assert!(
        seen.iter().all(|(_, parent)| parent.is_none()),
        "C06 'a span created without an explicit parent gets [the thread's current] span as \
         parent' violated: a span created on a fresh thread was parented to another thread's \
         span: {:?}",
        seen
    );
}

#[test]
fn thread_that_ends_inside_a_span_hands_it_to_the_next_thread() {
    let _serial = SERIAL.lock().unwrap_or_else(|e| e.into_inner());
    let dispatch = Dispatch::new(Registry::default().with(Noop));

    // Thread A ends while `request` is still entered on it.
    {
        let dispatch = dispatch.clone();
        thread::spawn(move || {
            let _default = dispatch::set_default(&dispatch);
            std::mem::forget(tracing::info_span!("request").entered());
            assert_eq!(current_name(&dispatch), Some("request"));
        })
        .join()
        .unwrap();
    }

    let seen = observe_fresh_threads(&dispatch, 16);
    assert!(
        seen.iter().all(|(current, parent)| current.is_none() && parent.is_none()),
        "C06 'current span is the most recently entered span not exited ON THAT THREAD, \
         independent of every other thread' violated: fresh threads report (current, parent of \
         a contextual span) = {:?}",
        seen
    );
}
