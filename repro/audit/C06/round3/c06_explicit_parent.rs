//! C06 demonstration: the journald subscriber attaches the span context of the
//! *thread's current span* to every event, even when the event names an
//! explicit parent (`parent: &span`) or an explicit root (`parent: None`).
//!
//! `tracing_journald::Subscriber::on_event` walks `ctx.lookup_current()`
//! instead of `ctx.event_scope(event)` (tracing-journald/src/lib.rs, `on_event`).
//!
//! journald is not available on the audit machine, and the socket path is a
//! constant (`/run/systemd/journal/socket`). To stay inside the worktree the
//! test re-executes itself inside a private user + mount namespace in which
//! `/run` is a scratch directory below `CARGO_TARGET_TMPDIR`, and plays the
//! role of journald on a datagram socket bound there.
#![cfg(target_os = "linux")]

use std::{
    os::unix::net::UnixDatagram,
    path::Path,
    process::Command,
    time::Duration,
};
use tracing::{info, info_span};
use tracing_journald::Subscriber;
use tracing_subscriber::{subscribe::CollectExt, Registry};

const SOCKET: &str = "/run/systemd/journal/socket";
const TEST_NAME: &str = "journald_event_with_explicit_parent_or_root";
const MARKER: &str = "C06_INSIDE_PRIVATE_NAMESPACE";

/// Names of the spans whose fields were prepended to a journald payload, in
/// the order in which they were written (root first).
fn span_names(payload: &[u8]) -> Vec<String> {
    let key = b"SPAN_NAME\n";
    let mut names = Vec::new();
    let mut at = 0;
    while let Some(pos) = payload[at..]
        .windows(key.len())
        .position(|w| w == key)
        .map(|p| p + at)
    {
        let len_at = pos + key.len();
        let mut len = [0u8; 8];
        len.copy_from_slice(&payload[len_at..len_at + 8]);
        let len = u64::from_le_bytes(len) as usize;
        let start = len_at + 8;
        names.push(String::from_utf8_lossy(&payload[start..start + len]).into_owned());
        at = start + len;
    }
    names
}

fn inner() {
    let _ = std::fs::remove_file(SOCKET);
    let journald = UnixDatagram::bind(SOCKET).expect("bind the fake journald socket");
    journald
        .set_read_timeout(Some(Duration::from_secs(5)))
        .unwrap();

    let subscriber = Subscriber::new()
        .expect("connect to the fake journald")
        .with_field_prefix(None);
    let collector = Registry::default().with(subscriber);

    tracing::collect::with_default(collector, || {
        let current = info_span!("current_span");
        let other = info_span!("other_span");
        let _entered = current.enter();
        info!("contextual");
        info!(parent: &other, "explicit parent");
        info!(parent: None, "explicit root");
    });

    let mut buf = vec![0u8; 64 * 1024];
    let mut recv = || {
        let n = journald.recv(&mut buf).expect("a datagram from the subscriber");
        buf[..n].to_vec()
    };
    // `Subscriber::new` probes the socket with an empty datagram.
    assert!(recv().is_empty());
    let contextual = span_names(&recv());
    let explicit_parent = span_names(&recv());
    let explicit_root = span_names(&recv());

    // Sanity: the contextual event is reported inside the current span.
    assert_eq!(contextual, ["current_span"]);

    let expected_parent: &[&str] = &["other_span"];
    let expected_root: &[&str] = &[];
    assert!(
        explicit_parent == expected_parent && explicit_root == expected_root,
        "C06 'an explicit parent or explicit root overrides [the current span]' violated by the \
         journald subscriber: the record of `info!(parent: &other_span, ..)` carries the span \
         context {:?} (expected {:?}); the record of `info!(parent: None, ..)` carries the span \
         context {:?} (expected {:?})",
        explicit_parent,
        expected_parent,
        explicit_root,
        expected_root,
    );
}

#[test]
fn journald_event_with_explicit_parent_or_root() {
    if std::env::var_os(MARKER).is_some() {
        return inner();
    }

    // Re-run this test in a private user + mount namespace where `/run` is a
    // scratch directory inside the worktree's target directory.
    let scratch = Path::new(env!("CARGO_TARGET_TMPDIR")).join("c06_fake_run");
    std::fs::create_dir_all(scratch.join("systemd/journal")).unwrap();
    let exe = std::env::current_exe().unwrap();
    let out = Command::new("unshare")
        .args(["--user", "--map-root-user", "--mount", "sh", "-c"])
        .arg("mount --bind \"$1\" /run && exec \"$2\" --exact \"$3\" --nocapture --test-threads=1")
        .arg("sh")
        .arg(&scratch)
        .arg(&exe)
        .arg(TEST_NAME)
        .env(MARKER, "1")
        .env("RUST_BACKTRACE", "0")
        .output()
        .expect("run `unshare`");
    let stdout = String::from_utf8_lossy(&out.stdout);
    let stderr = String::from_utf8_lossy(&out.stderr);
    assert!(
        out.status.success(),
        "run against a fake journald failed:\n--- stdout ---\n{}\n--- stderr ---\n{}",
        stdout,
        stderr
    );
}
