//! C06 demonstration: a `SpanTrace` captured while the `ErrorSubscriber` is
//! wrapped in a per-subscriber filter (`.with_filter(..)`) or in a
//! `reload::Subscriber` cannot walk the scope of the span it captured: it
//! yields no spans at all and reports `SpanTraceStatus::UNSUPPORTED`, although
//! the captured span and all its ancestors are alive in the registry.
//!
//! `SpanTrace::with_spans` finds the `ErrorSubscriber` through
//! `Dispatch::downcast_ref::<WithContext>()`; `Filtered::downcast_raw`
//! (tracing-subscriber/src/filter/subscriber_filters/mod.rs) only answers for
//! the exact types `Self`, `S`, `F` and never forwards to the wrapped
//! subscriber's own `downcast_raw`, and `reload::Subscriber::downcast_raw`
//! (tracing-subscriber/src/reload.rs) only lets two marker types through.

use tracing::{collect::with_default, info_span};
use tracing_error::{ErrorSubscriber, SpanTrace, SpanTraceStatus};
use tracing_subscriber::{filter::LevelFilter, prelude::*, reload, Registry};

fn names(trace: &SpanTrace) -> Vec<&'static str> {
    let mut names = Vec::new();
    trace.with_spans(|meta, _fields| {
        names.push(meta.name());
        true
    });
    names
}

fn capture_in_three_spans() -> SpanTrace {
    let root = info_span!("root");
    let _root = root.enter();
    let mid = info_span!("mid");
    let _mid = mid.enter();
    let leaf = info_span!("leaf");
    let _leaf = leaf.enter();
    SpanTrace::capture()
}

/// Control: without the wrapper the trace is the captured span's scope.
#[test]
fn plain_error_subscriber() {
    let collector = Registry::default().with(ErrorSubscriber::default());
    with_default(collector, || {
        let trace = capture_in_three_spans();
        assert_eq!(trace.status(), SpanTraceStatus::CAPTURED);
        assert_eq!(names(&trace), ["leaf", "mid", "root"]);
    });
}

#[test]
fn error_subscriber_with_a_per_subscriber_filter() {
    // The filter lets everything through.
    let collector =
        Registry::default().with(ErrorSubscriber::default().with_filter(LevelFilter::TRACE));
    with_default(collector, || {
        let trace = capture_in_three_spans();
        assert_eq!(
            names(&trace),
            ["leaf", "mid", "root"],
            "C06 'walking a span's scope yields exactly its chain of ancestors from leaf to root \
             ... readable for as long as any captured span trace is alive' violated: a SpanTrace \
             captured inside leaf < mid < root through a filtered ErrorSubscriber has status {:?} \
             and yields {:?}",
            trace.status(),
            names(&trace),
        );
    });
}

#[test]
fn error_subscriber_behind_a_reload_handle() {
    let (subscriber, _handle) = reload::Subscriber::new(ErrorSubscriber::default());
    let collector = Registry::default().with(subscriber);
    with_default(collector, || {
        let trace = capture_in_three_spans();
        assert_eq!(
            names(&trace),
            ["leaf", "mid", "root"],
            "C06 'walking a span's scope yields exactly its chain of ancestors from leaf to root \
             ... readable for as long as any captured span trace is alive' violated: a SpanTrace \
             captured inside leaf < mid < root through a reloadable ErrorSubscriber has status \
             {:?} and yields {:?}",
            trace.status(),
            names(&trace),
        );
    });
}
