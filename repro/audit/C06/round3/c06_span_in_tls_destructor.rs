//! C06 supplementary demonstration ("span creation ... at every point"):
//! creating or entering a registry span from the destructor of a
//! `thread_local!` value that was initialised before the thread first touched
//! the registry panics inside the destructor, which aborts the whole process
//! ("thread local panicked on drop").
//!
//! * creating: `Registry::new_span` -> `Pool::create_with` -> sharded-slab's
//!   per-thread `Tid` registration has already been destroyed -> "Thread count
//!   overflowed the configured max count".
//! * entering: `Registry::enter` -> `ThreadLocal::get_or_default` -> the
//!   `thread_local` crate's `THREAD_GUARD` has already been destroyed.
//!
//! The test re-executes itself as a child process so that the abort can be
//! observed.
#![cfg(all(feature = "registry", feature = "std"))]

use std::{cell::RefCell, process::Command, thread};
use tracing::{dispatch, Dispatch, Span};
use tracing_subscriber::{prelude::*, subscribe::Subscribe, Registry};

struct Noop;
impl<C: tracing::Collect> Subscribe<C> for Noop {}

const MODE: &str = "C06_TLS_DTOR_MODE";

/// Some per-thread resource whose `Drop` is instrumented.
struct Resource(Option<Span>);

impl Drop for Resource {
    fn drop(&mut self) {
        match self.0.take() {
            // enter a span that was created while the thread was running
            Some(span) => {
                let _e = span.enter();
                eprintln!("inner: entered the pre-made span");
            }
            // create (and enter) a new span
            None => {
                let span = tracing::info_span!("cleanup");
                let _e = span.enter();
                eprintln!("inner: created and entered `cleanup`");
            }
        }
    }
}

thread_local! {
    static RESOURCE: RefCell<Option<Resource>> = const { RefCell::new(None) };
}

fn inner(mode: &str) {
    dispatch::set_global_default(Dispatch::new(Registry::default().with(Noop))).unwrap();
    let premade = mode == "enter";
    thread::spawn(move || {
        // The thread-local is initialised first ...
        RESOURCE.with(|r| *r.borrow_mut() = Some(Resource(None)));
        // ... and the thread uses spans afterwards.
        tracing::info_span!("work").in_scope(|| {});
        if premade {
            RESOURCE.with(|r| {
                r.borrow_mut().as_mut().unwrap().0 = Some(tracing::info_span!("premade"))
            });
        }
    })
    .join()
    .unwrap();
    eprintln!("inner: thread joined, process still alive");
}

fn run(mode: &str) -> (bool, String) {
    let out = Command::new(std::env::current_exe().unwrap())
        .args(["--exact", "child", "--nocapture", "--test-threads=1"])
        .env(MODE, mode)
        .env("RUST_BACKTRACE", "0")
        .output()
        .unwrap();
    (
        out.status.success(),
        format!(
            "status: {:?}\n{}",
            out.status,
            String::from_utf8_lossy(&out.stderr)
        ),
    )
}

#[test]
fn child() {
    if let Ok(mode) = std::env::var(MODE) {
        inner(&mode);
    }
}

#[test]
fn creating_a_span_in_a_thread_local_destructor() {
    let (ok, log) = run("create");
    assert!(
        ok,
        "C06 'span creation at every point' violated: creating a span in a thread-local \
         destructor took the process down:\n{}",
        log
    );
}

#[test]
fn entering_a_span_in_a_thread_local_destructor() {
    let (ok, log) = run("enter");
    assert!(
        ok,
        "C06 'enter/exit at every point' violated: entering a span in a thread-local destructor \
         took the process down:\n{}",
        log
    );
}
