//! C06 demonstration: the registry's per-thread "current span" is NOT
//! independent of other threads. The per-thread span stacks live in a
//! `thread_local::ThreadLocal`, whose slots are keyed by a *recycled* thread
//! index and are never cleared when a thread ends. A thread that ends while a
//! span is still entered on it (its per-thread history is just `enter(a)`)
//! leaves its stack behind, and the next thread that is started inherits it:
//! a brand-new thread that has never entered anything reports `a` as its
//! current span, new spans created there get `a` as their contextual parent,
//! and `SpanTrace`-style `Span::current()` captures see `a`.
#![cfg(all(feature = "registry", feature = "std"))]

use std::thread;
use tracing::{dispatch, Dispatch, Span};
use tracing_subscriber::registry::{LookupSpan, Registry};

#[test]
fn fresh_thread_has_no_current_span() {
    let dispatch = Dispatch::new(Registry::default());

    // the span is created on the test's own thread and never entered here.
    let a = dispatch::with_default(&dispatch, || tracing::info_span!("a"));

    // Thread 1: enters `a` and ends without exiting it.
    {
        let dispatch = dispatch.clone();
        let a = a.clone();
        thread::spawn(move || {
            dispatch::with_default(&dispatch, || {
                std::mem::forget(a.enter());
                assert_eq!(Span::current().id(), a.id());
            });
        })
        .join()
        .unwrap();
    }

    // the test thread never entered anything.
    dispatch::with_default(&dispatch, || {
        assert!(Span::current().is_none());
    });

    // Threads 2..: brand-new threads; each one's own history is
    // `enter(b), exit(b)`, so afterwards each of them must have no current span.
    for n in 2..6 {
        let dispatch = dispatch.clone();
        let a_id = a.id();
        thread::spawn(move || {
            dispatch::with_default(&dispatch, || {
                let b = tracing::info_span!(parent: None, "b");
                b.in_scope(|| assert_eq!(Span::current().id(), b.id()));

                let current = Span::current();
                assert!(
                    current.is_none(),
                    "C06 'current span is per thread, independent of every other thread' violated: \
                     thread #{} has exited every span it entered (history: enter b, exit b), but \
                     the registry reports {:?} as its current span (id of span `a`, which was only \
                     ever entered on another, already finished thread: {:?})",
                    n,
                    current,
                    a_id,
                );

                let child = tracing::info_span!("child");
                let registry = dispatch.downcast_ref::<Registry>().unwrap();
                let parent = registry
                    .span(&child.id().unwrap())
                    .unwrap()
                    .parent()
                    .map(|p| p.name());
                assert_eq!(
                    parent, None,
                    "C06 'a span created without an explicit parent gets the thread's current \
                     span as parent' violated: thread #{} has no span entered, yet the new span \
                     got a parent",
                    n
                );
            });
        })
        .join()
        .unwrap();
    }
}
