//! C06 demonstration: "an explicit parent ... overrides [the current span]; and
//! walking a span's scope yields exactly its chain of ancestors".
//!
//! The JSON formatter writes the event's parent under `"span"` and the
//! parent's scope under `"spans"`. For an event with an explicit parent the
//! `"span"` entry is the explicit parent, but the `"spans"` list is built from
//! the thread's *current* span (`Context::lookup_current`) instead of from the
//! event's parent, so the two disagree: the list is not the chain of ancestors
//! of the event's parent.
#![cfg(all(feature = "json", feature = "fmt", feature = "std"))]

use std::{
    io,
    sync::{Arc, Mutex},
};
use tracing::collect::with_default;
use tracing_subscriber::fmt::MakeWriter;

#[derive(Clone, Default)]
struct Buf(Arc<Mutex<Vec<u8>>>);

impl io::Write for Buf {
    fn write(&mut self, buf: &[u8]) -> io::Result<usize> {
        self.0.lock().unwrap().extend_from_slice(buf);
        Ok(buf.len())
    }
    fn flush(&mut self) -> io::Result<()> {
        Ok(())
    }
}

impl<'a> MakeWriter<'a> for Buf {
    type Writer = Buf;
    fn make_writer(&'a self) -> Self::Writer {
        self.clone()
    }
}

impl Buf {
    fn take_line(&self) -> serde_json::Value {
        let mut buf = self.0.lock().unwrap();
        let s = String::from_utf8(std::mem::take(&mut *buf)).unwrap();
        serde_json::from_str(s.lines().last().expect("one line of output")).unwrap()
    }
}

fn names(v: &serde_json::Value) -> Vec<String> {
    v.as_array()
        .map(|spans| {
            spans
                .iter()
                .map(|s| s["name"].as_str().unwrap().to_string())
                .collect()
        })
        .unwrap_or_default()
}

#[test]
fn span_list_is_the_scope_of_the_explicit_parent() {
    let buf = Buf::default();
    let collector = tracing_subscriber::fmt()
        .json()
        .with_current_span(true)
        .with_span_list(true)
        .with_writer(buf.clone())
        .finish();

    with_default(collector, || {
        let root = tracing::info_span!("root");
        let leaf = tracing::info_span!(parent: &root, "leaf");
        let unrelated = tracing::info_span!(parent: None, "unrelated");

        // sanity: contextual event inside `leaf`
        leaf.in_scope(|| tracing::info!("contextual"));
        let line = buf.take_line();
        assert_eq!(line["span"]["name"], "leaf");
        assert_eq!(names(&line["spans"]), ["root", "leaf"]);

        // explicit parent while a *different* span is the current one
        unrelated.in_scope(|| tracing::info!(parent: &leaf, "explicit parent, other span current"));
        let line = buf.take_line();
        assert_eq!(line["span"]["name"], "leaf", "{}", line);
        assert_eq!(
            names(&line["spans"]),
            ["root", "leaf"],
            "C06 'an explicit parent overrides the current span / the scope is exactly the chain \
             of ancestors' violated: the event's parent is `leaf` (see \"span\"), but the JSON \
             span list is the scope of the thread's current span: {}",
            line
        );
    });
}

#[test]
fn span_list_of_explicit_parent_without_current_span() {
    let buf = Buf::default();
    let collector = tracing_subscriber::fmt()
        .json()
        .with_current_span(true)
        .with_span_list(true)
        .with_writer(buf.clone())
        .finish();

    with_default(collector, || {
        let root = tracing::info_span!("root");
        let leaf = tracing::info_span!(parent: &root, "leaf");

        // explicit parent while no span is entered at all
        tracing::info!(parent: &leaf, "explicit parent, nothing entered");
        let line = buf.take_line();
        assert_eq!(line["span"]["name"], "leaf", "{}", line);
        assert_eq!(
            names(&line["spans"]),
            ["root", "leaf"],
            "C06 'an explicit parent overrides the current span / the scope is exactly the chain \
             of ancestors' violated: the event's parent is `leaf` (see \"span\"), but the JSON \
             span list was taken from the (empty) current-span stack: {}",
            line
        );
    });
}
