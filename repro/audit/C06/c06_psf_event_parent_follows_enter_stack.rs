//! C06 (option combination: per-subscriber filters). For a filtered subscriber
//! whose filter disabled the current span, `Context::lookup_current` /
//! `event_span` / `event_scope` fall back to the next enabled entry of the
//! thread's *enter stack*, not to the nearest enabled *ancestor* of the current
//! span. With an explicit parent in play these differ: the event is reported
//! inside a span that is not among its ancestors, while a span created at the
//! very same point is (correctly) reported below the real ancestors.
#![cfg(all(feature = "registry", feature = "std"))]

use std::sync::{Arc, Mutex};
use tracing::{collect::with_default, span, Collect, Event};
use tracing_subscriber::{
    filter::filter_fn,
    prelude::*,
    registry::LookupSpan,
    subscribe::{Context, Subscribe},
};

#[derive(Default, Clone)]
struct Seen {
    event_scope: Arc<Mutex<Option<Vec<&'static str>>>>,
    span_scope: Arc<Mutex<Option<Vec<&'static str>>>>,
}

impl<C> Subscribe<C> for Seen
where
    C: Collect + for<'l> LookupSpan<'l>,
{
    fn on_new_span(&self, _: &span::Attributes<'_>, id: &span::Id, ctx: Context<'_, C>) {
        let span = ctx.span(id).unwrap();
        if span.name() == "probe" {
            // ancestors of the new span, as this subscriber sees them
            *self.span_scope.lock().unwrap() =
                Some(span.scope().skip(1).map(|s| s.name()).collect());
        }
    }

    fn on_event(&self, event: &Event<'_>, ctx: Context<'_, C>) {
        *self.event_scope.lock().unwrap() = Some(
            ctx.event_scope(event)
                .into_iter()
                .flatten()
                .map(|s| s.name())
                .collect(),
        );
    }
}

#[test]
fn contextual_event_and_span_agree_on_their_ancestors() {
    let seen = Seen::default();
    let collector = tracing_subscriber::registry()
        // an unfiltered subscriber, so that `mid` exists at all
        .with(Seen::default())
        .with(
            seen.clone()
                .with_filter(filter_fn(|meta| meta.name() != "mid")),
        );

    with_default(collector, || {
        let root = tracing::info_span!("root");
        let other = tracing::info_span!(parent: None, "other");
        let mid = tracing::info_span!(parent: &root, "mid");

        let _other = other.enter();
        let _mid = mid.enter();
        // current span: `mid`; its only ancestor: `root`. `other` is merely
        // entered further down the stack and is no ancestor of `mid`.
        let _probe = tracing::info_span!("probe");
        tracing::info!("probe event");
    });

    let span_scope = seen.span_scope.lock().unwrap().clone().unwrap();
    let event_scope = seen.event_scope.lock().unwrap().clone().unwrap();
    assert_eq!(span_scope, ["root"], "ancestors of the contextual span");
    assert_eq!(
        event_scope, span_scope,
        "C06 'a span or event created without an explicit parent gets the current span as parent; \
         the scope is exactly the chain of ancestors' violated for a filtered subscriber: a span \
         and an event created at the same point disagree, the event is reported inside a span \
         that is not an ancestor of the current span"
    );
}
