//! C12 audit demonstration 2.
//!
//! `Handle::reload` on a `reload::Subscriber<Filtered<L, F, C>>` returns
//! `Ok(())`, but the new `Filtered` value never goes through `on_subscribe`,
//! so it keeps `FilterId::disabled()`: `FilterMap::set` ignores that id and
//! `did_enable` treats it as "nobody disabled this".  After the reload has
//! returned, the layer is therefore NOT judged by the new filter whenever the
//! callsite's cached interest is `sometimes` (any sibling layer is enough):
//! the new filter's `enabled() == false` is computed and thrown away.
//!
//! (The rustdoc of `Handle::reload` mentions that it "cannot be used" with
//! `Filtered`; the call nevertheless succeeds and silently mis-filters, which
//! is what the stated property forbids.)
#![cfg(feature = "registry")]
use std::sync::{Arc, Mutex};
use tracing::Level;
use tracing_core::{Collect, Dispatch, Event};
use tracing_subscriber::{
    filter::LevelFilter,
    prelude::*,
    reload,
    subscribe::{Context, Subscribe},
    Registry,
};

#[derive(Clone, Default)]
struct Rec(Arc<Mutex<Vec<Level>>>);
impl<C: Collect> Subscribe<C> for Rec {
    fn on_event(&self, ev: &Event<'_>, _: Context<'_, C>) {
        self.0.lock().unwrap().push(*ev.metadata().level());
    }
}
impl Rec {
    fn take(&self) -> Vec<Level> {
        std::mem::take(&mut *self.0.lock().unwrap())
    }
}

fn emit() {
    tracing::error!("e");
    tracing::info!("i");
    tracing::debug!("d");
}

#[test]
fn layer_is_judged_by_the_filter_it_was_reloaded_with() {
    let filtered = Rec::default();
    let unfiltered_sibling = Rec::default();
    let (slot, handle) =
        reload::Subscriber::new(filtered.clone().with_filter(LevelFilter::DEBUG));
    let d = Dispatch::new(
        Registry::default()
            .with(slot)
            .with(unfiltered_sibling.clone()),
    );

    tracing::dispatch::with_default(&d, emit);
    assert_eq!(filtered.take(), [Level::ERROR, Level::INFO, Level::DEBUG]);

    // Replace layer + filter in one go; the handle reports success.
    handle
        .reload(filtered.clone().with_filter(LevelFilter::ERROR))
        .expect("the collector is alive, reload reports success");

    // Every emission from here on starts after `reload` has returned.
    tracing::dispatch::with_default(&d, emit);
    let here = filtered.take();
    let d2 = d.clone();
    std::thread::spawn(move || tracing::dispatch::with_default(&d2, emit))
        .join()
        .unwrap();
    let there = filtered.take();

    assert_eq!(
        (here.clone(), there.clone()),
        (vec![Level::ERROR], vec![Level::ERROR]),
        "C12 violated - clause \"every emission that starts afterwards on any thread ... is \
         judged by the new filter or layer\": after reload(<layer>.with_filter(ERROR)) returned \
         Ok, the layer still received {:?} on the reloading thread and {:?} on another thread",
        here,
        there
    );
}
