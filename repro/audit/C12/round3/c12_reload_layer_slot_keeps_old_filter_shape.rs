//! C12 audit demonstration 1.
//!
//! `Layered` decides ONCE, when the stack is built, whether the subscriber in
//! a slot "has a per-subscriber filter" (`has_subscriber_filter`,
//! layered.rs `Layered::new`).  `reload::Subscriber` lets the value in that
//! slot change afterwards.  When a reload replaces (or extends) a value that
//! was per-subscriber filtered by one that is not, `Layered::pick_interest`
//! keeps returning the inner stack's interest and throws the reloaded value's
//! own interest away, so after `reload`/`modify` has returned:
//!
//!  * a newly installed *unfiltered* layer is denied every callsite the
//!    remaining per-subscriber filters say `never` to, and
//!  * a newly installed *global* filter that says `never` is not asked at all.
#![cfg(feature = "registry")]
use std::sync::{Arc, Mutex};
use tracing::Level;
use tracing_core::{Collect, Dispatch, Event};
use tracing_subscriber::{
    filter::LevelFilter,
    prelude::*,
    reload,
    subscribe::{Context, Subscribe},
    Registry,
};

#[derive(Clone, Default)]
struct Rec(Arc<Mutex<Vec<Level>>>);
impl<C: Collect> Subscribe<C> for Rec {
    fn on_event(&self, ev: &Event<'_>, _: Context<'_, C>) {
        self.0.lock().unwrap().push(*ev.metadata().level());
    }
}
impl Rec {
    fn take(&self) -> Vec<Level> {
        std::mem::take(&mut *self.0.lock().unwrap())
    }
}

fn emit() {
    tracing::error!("e");
    tracing::info!("i");
    tracing::debug!("d");
}

fn emit_here_and_there(d: &Dispatch) {
    tracing::dispatch::with_default(d, emit);
    let d = d.clone();
    std::thread::spawn(move || tracing::dispatch::with_default(&d, emit))
        .join()
        .unwrap();
}

type BoxedLayer<C> = Box<dyn Subscribe<C> + Send + Sync>;
const ALL: [Level; 3] = [Level::ERROR, Level::INFO, Level::DEBUG];

#[test]
fn reloaded_slot_is_judged_by_the_new_layer_or_filter() {
    let mut violations = Vec::new();
    let twice = |v: &[Level]| [v, v].concat();

    // --- (a) a layer is ADDED at runtime to a reloadable Vec of layers -----
    {
        let errors_only = Rec::default();
        let added = Rec::default();
        let layers: Vec<BoxedLayer<Registry>> =
            vec![Box::new(errors_only.clone().with_filter(LevelFilter::ERROR))];
        let (layers, handle) = reload::Subscriber::new(layers);
        let d = Dispatch::new(Registry::default().with(layers));

        let to_add = added.clone();
        handle
            .modify(move |v| v.push(Box::new(to_add)))
            .expect("the collector is alive");
        // `modify` has returned: from now on the unfiltered layer must see
        // everything, on this thread and on any other.
        emit_here_and_there(&d);
        let got = added.take();
        if got != twice(&ALL) {
            violations.push(format!(
                "(a) unfiltered layer pushed into reload<Vec<..>> saw {:?}, expected {:?}",
                got,
                twice(&ALL)
            ));
        }
        assert_eq!(errors_only.take(), twice(&[Level::ERROR]));

        // control: the very same configuration built directly works.
        let c1 = Rec::default();
        let c2 = Rec::default();
        let layers: Vec<BoxedLayer<Registry>> = vec![
            Box::new(c1.clone().with_filter(LevelFilter::ERROR)),
            Box::new(c2.clone()),
        ];
        let fresh = Dispatch::new(Registry::default().with(layers));
        emit_here_and_there(&fresh);
        assert_eq!(c2.take(), twice(&ALL), "control (a)");
    }

    // --- (b) a filtered layer is REPLACED by an unfiltered one ------------
    // --- (c) ... and then by a global filter that turns everything off ----
    {
        type Below = tracing_subscriber::subscribe::Layered<
            tracing_subscriber::filter::Filtered<Rec, LevelFilter, Registry>,
            Registry,
        >;
        let sibling = Rec::default();
        let old = Rec::default();
        let new = Rec::default();
        let first: BoxedLayer<Below> = Box::new(old.clone().with_filter(LevelFilter::DEBUG));
        let (slot, handle) = reload::Subscriber::new(first);
        let d = Dispatch::new(
            Registry::default()
                .with(sibling.clone().with_filter(LevelFilter::ERROR))
                .with(slot),
        );
        emit_here_and_there(&d);
        assert_eq!(old.take(), twice(&ALL));
        assert_eq!(sibling.take(), twice(&[Level::ERROR]));

        let second: BoxedLayer<Below> = Box::new(new.clone());
        handle.reload(second).expect("the collector is alive");
        emit_here_and_there(&d);
        let got = new.take();
        if got != twice(&ALL) {
            violations.push(format!(
                "(b) unfiltered layer reloaded into a slot that held a filtered one saw {:?}, expected {:?}",
                got,
                twice(&ALL)
            ));
        }
        sibling.take();

        let third: BoxedLayer<Below> = Box::new(LevelFilter::OFF);
        handle.reload(third).expect("the collector is alive");
        emit_here_and_there(&d);
        let got = sibling.take();
        if !got.is_empty() {
            violations.push(format!(
                "(c) global LevelFilter::OFF reloaded into that slot is never asked: sibling still saw {:?}",
                got
            ));
        }

        // control for (c): built directly, the global OFF filter silences the sibling.
        let c = Rec::default();
        let fresh = Dispatch::new(
            Registry::default()
                .with(c.clone().with_filter(LevelFilter::ERROR))
                .with(Box::new(LevelFilter::OFF) as BoxedLayer<Below>),
        );
        emit_here_and_there(&fresh);
        assert_eq!(c.take(), Vec::<Level>::new(), "control (c)");
    }

    assert!(
        violations.is_empty(),
        "C12 violated - clause \"once reload or modify has returned, every emission that starts \
         afterwards on any thread ... is judged by the new filter or layer\":\n  {}",
        violations.join("\n  ")
    );
}
