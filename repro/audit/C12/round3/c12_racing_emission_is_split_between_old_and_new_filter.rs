//! C12 audit demonstration 3.
//!
//! `reload::Subscriber` takes its read lock once per *hook call*, not once
//! per emission.  One reloadable per-subscriber filter that guards two layers
//! (shared through the public `impl Filter for Arc<dyn Filter<_> + Send + Sync>`)
//! is asked once for each of them during a single emission.  A reload that
//! completes on another thread between the two questions makes the first layer
//! accept the event under the OLD value while the second rejects it under the
//! NEW value: the racing emission is judged partly by the old and partly by the
//! new filter.
//!
//! The `Gate` subscriber below does no filtering; it only pins down the
//! interleaving (emitting thread is between the two `enabled` calls while the
//! main thread runs `Handle::reload` to completion), so the test is
//! deterministic.
#![cfg(feature = "registry")]
use std::sync::{mpsc, Arc, Mutex};
use tracing_core::{collect::Interest, Collect, Dispatch, Event, Metadata};
use tracing_subscriber::{
    filter::LevelFilter,
    prelude::*,
    reload,
    subscribe::{Context, Filter, Subscribe},
    Registry,
};

#[derive(Clone, Default)]
struct Rec(Arc<Mutex<usize>>);
impl<C: Collect> Subscribe<C> for Rec {
    fn on_event(&self, _: &Event<'_>, _: Context<'_, C>) {
        *self.0.lock().unwrap() += 1;
    }
}
impl Rec {
    fn take(&self) -> usize {
        std::mem::take(&mut *self.0.lock().unwrap())
    }
}

struct Gate {
    reached: Mutex<Option<mpsc::Sender<()>>>,
    resume: Mutex<Option<mpsc::Receiver<()>>>,
}
impl<C: Collect> Subscribe<C> for Gate {
    fn register_callsite(&self, _: &'static Metadata<'static>) -> Interest {
        // like any subscriber with a dynamic `enabled`
        Interest::sometimes()
    }
    fn enabled(&self, _: &Metadata<'_>, _: Context<'_, C>) -> bool {
        if let Some(reached) = self.reached.lock().unwrap().take() {
            reached.send(()).unwrap();
            let resume = self.resume.lock().unwrap().take().unwrap();
            resume.recv().unwrap();
        }
        true
    }
}

#[test]
fn racing_emission_is_judged_entirely_by_old_or_entirely_by_new() {
    let (reached_tx, reached_rx) = mpsc::channel();
    let (resume_tx, resume_rx) = mpsc::channel();
    let first = Rec::default();
    let second = Rec::default();

    let (filter, handle) = reload::Subscriber::new(LevelFilter::TRACE);
    let shared: Arc<dyn Filter<Registry> + Send + Sync> = Arc::new(filter);
    let layers: Vec<Box<dyn Subscribe<Registry> + Send + Sync>> = vec![
        Box::new(first.clone().with_filter(shared.clone())),
        Box::new(Gate {
            reached: Mutex::new(Some(reached_tx)),
            resume: Mutex::new(Some(resume_rx)),
        }),
        Box::new(second.clone().with_filter(shared)),
    ];
    let d = Dispatch::new(Registry::default().with(layers));

    // one emission on another thread ...
    let emitter = {
        let d = d.clone();
        std::thread::spawn(move || {
            tracing::dispatch::with_default(&d, || tracing::info!("racing with the reload"))
        })
    };
    // ... which has begun (the filter has been asked on behalf of `first`) ...
    reached_rx.recv().unwrap();
    // ... races with a complete reload on this thread ...
    handle.reload(LevelFilter::OFF).expect("collector alive");
    // ... and then goes on.
    resume_tx.send(()).unwrap();
    emitter.join().unwrap();

    let verdicts = (first.take(), second.take());

    // sanity: an emission that starts after the reload is rejected for both.
    tracing::dispatch::with_default(&d, || tracing::info!("after the reload"));
    assert_eq!((first.take(), second.take()), (0, 0));

    assert!(
        verdicts == (1, 1) || verdicts == (0, 0),
        "C12 violated - clause \"an emission racing with the reload is judged entirely by the old \
         or entirely by the new value\": the two layers guarded by the one reloadable LevelFilter \
         (TRACE -> OFF) saw the racing event (first, second) = {:?}; old value means (1, 1), new \
         value means (0, 0)",
        verdicts
    );
}
