//! C12 demonstration: an `EnvFilter` with a span directive (`[conn]=debug`) is
//! reloaded -- with an *identical* filter. Spans that already exist are unknown
//! to the new value (`by_id` / `scope` belong to the old one and nothing
//! re-populates them), so DEBUG events inside such a span, emitted after
//! `reload` returned and even after the span was left and entered again (on any
//! thread), are not judged the way the new filter prescribes. Same for the
//! global-layer and the per-layer-filter use of the reload handle.
#![cfg(all(feature = "registry", feature = "env-filter"))]
use std::sync::{Arc, Mutex};
use tracing_core::{Collect, Event, Level};
use tracing_subscriber::{filter::EnvFilter, prelude::*, reload, subscribe::Context, Subscribe};

#[derive(Clone, Default)]
struct Rec(Arc<Mutex<Vec<Level>>>);
impl Rec {
    fn take(&self) -> Vec<Level> {
        std::mem::take(&mut *self.0.lock().unwrap())
    }
}
impl<C: Collect> Subscribe<C> for Rec {
    fn on_event(&self, e: &Event<'_>, _: Context<'_, C>) {
        self.0.lock().unwrap().push(*e.metadata().level());
    }
}

const DIRECTIVES: &str = "warn,[conn]=debug";

fn emit() {
    tracing::warn!("w");
    tracing::debug!("d");
}

fn scenario(per_layer: bool) {
    let which = if per_layer { "per-layer filter" } else { "global layer" };
    let rec = Rec::default();
    let (filter, handle) = reload::Subscriber::new(EnvFilter::new(DIRECTIVES));
    let d = if per_layer {
        tracing::Dispatch::new(tracing_subscriber::registry().with(rec.clone().with_filter(filter)))
    } else {
        tracing::Dispatch::new(tracing_subscriber::registry().with(rec.clone()).with(filter))
    };

    let conn = tracing::dispatch::with_default(&d, || {
        let conn = tracing::info_span!("conn");
        conn.in_scope(emit);
        conn
    });
    assert_eq!(
        rec.take(),
        [Level::WARN, Level::DEBUG],
        "{}: before the reload, DEBUG is enabled inside `conn`",
        which
    );

    // reload a filter that is equal to the current one
    handle
        .reload(EnvFilter::new(DIRECTIVES))
        .expect("collector is alive");

    // a fresh span is judged by the new value as expected
    tracing::dispatch::with_default(&d, || tracing::info_span!("conn").in_scope(emit));
    assert_eq!(
        rec.take(),
        [Level::WARN, Level::DEBUG],
        "{}: new `conn` span after the reload",
        which
    );

    // the long-lived span is entered *after* reload returned, on another thread
    let d2 = d.clone();
    std::thread::spawn(move || tracing::dispatch::with_default(&d2, || conn.in_scope(emit)))
        .join()
        .unwrap();
    assert_eq!(
        rec.take(),
        [Level::WARN, Level::DEBUG],
        "C12 violated ({}; clause: every emission that starts after reload returned is judged by \
         the new filter): the new filter is `{}`, the event is a DEBUG event inside a `conn` \
         span that was entered after the reload, yet it is dropped because the span was created \
         before the reload",
        which,
        DIRECTIVES
    );
}

#[test]
fn existing_spans_after_reload() {
    // one test function: both scenarios touch the process-wide max level
    let global = std::panic::catch_unwind(|| scenario(false));
    let per_layer = std::panic::catch_unwind(|| scenario(true));
    assert!(
        global.is_ok() && per_layer.is_ok(),
        "C12 violated: global layer ok = {}, per-layer filter ok = {}",
        global.is_ok(),
        per_layer.is_ok()
    );
}
