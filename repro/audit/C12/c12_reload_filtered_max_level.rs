//! C12 demonstration: a `Filtered` layer wrapped in `reload::Subscriber` (the
//! set-up shown in the docs of `Filtered::filter_mut`) next to a layer that has
//! no filter at all. `reload::Subscriber::downcast_raw` hides the per-layer
//! filter marker of the wrapped `Filtered`, so `Layered` treats the per-layer
//! filter's level hint as a *global* one. After `Handle::modify` returns, the
//! new maximum level is the reloaded per-layer filter's level and every thread
//! drops emissions that the collector (its unfiltered layer) enables.
#![cfg(feature = "registry")]
use std::sync::{Arc, Mutex};
use tracing_core::{Collect, Event, Level, LevelFilter};
use tracing_subscriber::{prelude::*, reload, subscribe::Context, Subscribe};

#[derive(Clone, Default)]
struct Rec(Arc<Mutex<Vec<Level>>>);
impl Rec {
    fn take(&self) -> Vec<Level> {
        std::mem::take(&mut *self.0.lock().unwrap())
    }
}
impl<C: Collect> Subscribe<C> for Rec {
    fn on_event(&self, e: &Event<'_>, _: Context<'_, C>) {
        self.0.lock().unwrap().push(*e.metadata().level());
    }
}

fn emit_all() {
    tracing::error!("x");
    tracing::warn!("x");
    tracing::info!("x");
    tracing::debug!("x");
    tracing::trace!("x");
}

const ALL: [Level; 5] = [
    Level::ERROR,
    Level::WARN,
    Level::INFO,
    Level::DEBUG,
    Level::TRACE,
];

#[test]
fn reloading_a_per_layer_filter_must_not_lower_the_max_level_of_other_layers() {
    // Control: the same stack without the reload wrapper.
    {
        let unfiltered = Rec::default();
        let filtered = Rec::default();
        let d = tracing::Dispatch::new(
            tracing_subscriber::registry()
                .with(unfiltered.clone())
                .with(filtered.clone().with_filter(LevelFilter::ERROR)),
        );
        tracing::dispatch::with_default(&d, emit_all);
        assert_eq!(unfiltered.take(), ALL, "control: unfiltered layer");
        assert_eq!(filtered.take(), [Level::ERROR], "control: filtered layer");
    }

    let unfiltered = Rec::default();
    let filtered = Rec::default();
    let (layer, handle) =
        reload::Subscriber::new(filtered.clone().with_filter(LevelFilter::TRACE));
    let d = tracing::Dispatch::new(
        tracing_subscriber::registry()
            .with(unfiltered.clone())
            .with(layer),
    );

    tracing::dispatch::with_default(&d, emit_all);
    assert_eq!(unfiltered.take(), ALL, "before the reload: unfiltered layer");
    assert_eq!(filtered.take(), ALL, "before the reload: filtered layer");

    handle
        .modify(|l| *l.filter_mut() = LevelFilter::ERROR)
        .expect("collector is alive");

    // emissions that start after `modify` returned, on another thread
    let d2 = d.clone();
    std::thread::spawn(move || tracing::dispatch::with_default(&d2, emit_all))
        .join()
        .unwrap();

    assert_eq!(
        filtered.take(),
        [Level::ERROR],
        "the reloaded layer is judged by its new filter"
    );
    assert_eq!(
        unfiltered.take(),
        ALL,
        "C12 violated (clause: judged by the new filter AND the new maximum level): after \
         modify() returned the max level is {:?}, taken from the reloaded *per-layer* filter, so \
         the layer without any filter no longer receives what it enables",
        LevelFilter::current()
    );
}
