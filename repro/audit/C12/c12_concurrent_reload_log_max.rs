//! C12 demonstration: two threads reload the same handle concurrently. After
//! *both* `reload` calls have returned, the filter and the `tracing` max level
//! are the last-written value, but the `log` crate's max level (which
//! `Handle::modify` sets as its last step) can be the one that belongs to the
//! *other*, already overwritten, value. From then on `log` records that the
//! new filter enables are dropped before they ever reach `tracing`.
#![cfg(all(feature = "registry", feature = "tracing-log"))]
use std::sync::{
    atomic::{AtomicBool, AtomicUsize, Ordering},
    Arc, Barrier,
};
use std::time::{Duration, Instant};
use tracing_core::{Collect, Event};
use tracing_log::AsLog;
use tracing_subscriber::{filter::LevelFilter, prelude::*, reload, subscribe::Context, Subscribe};

#[derive(Clone, Default)]
struct Count(Arc<AtomicUsize>);
impl<C: Collect> Subscribe<C> for Count {
    fn on_event(&self, _: &Event<'_>, _: Context<'_, C>) {
        self.0.fetch_add(1, Ordering::SeqCst);
    }
}

#[test]
fn log_records_after_concurrent_reloads_are_judged_by_the_new_max_level() {
    let seen = Count::default();
    let (filter, handle) = reload::Subscriber::new(LevelFilter::INFO);
    // global default + LogTracer, exactly what `fmt().with_filter_reloading().init()` does
    tracing_subscriber::registry()
        .with(seen.clone())
        .with(filter)
        .init();

    const N: usize = 2;
    let levels = [LevelFilter::ERROR, LevelFilter::TRACE];
    let barrier = Arc::new(Barrier::new(N + 1));
    let stop = Arc::new(AtomicBool::new(false));
    let mut threads = vec![];
    for i in 0..N {
        let (b, h, stop) = (barrier.clone(), handle.clone(), stop.clone());
        threads.push(std::thread::spawn(move || loop {
            b.wait();
            if stop.load(Ordering::SeqCst) {
                return;
            }
            h.reload(levels[i]).expect("collector is alive");
            b.wait();
        }));
    }

    let deadline = Instant::now() + Duration::from_secs(240);
    let mut rounds = 0u64;
    let mut found = None;
    while Instant::now() < deadline {
        barrier.wait(); // start of the round: both threads call `reload`
        barrier.wait(); // end of the round: both `reload` calls have returned
        rounds += 1;
        let current = handle.clone_current().unwrap();
        let tracing_max = LevelFilter::current();
        let log_max = log::max_level();
        if log_max != current.as_log() {
            found = Some((current, tracing_max, log_max));
            break;
        }
    }
    stop.store(true, Ordering::SeqCst);
    barrier.wait();
    for t in threads {
        t.join().unwrap();
    }

    let Some((current, tracing_max, log_max)) = found else {
        eprintln!("race not hit in {} rounds; inconclusive run", rounds);
        return;
    };

    // No reload is running any more. The current filter value enables WARN
    // (it is TRACE), and a native `tracing` event is delivered ...
    let before = seen.0.load(Ordering::SeqCst);
    tracing::warn!("native tracing event");
    let native = seen.0.load(Ordering::SeqCst) - before;
    // ... but the same emission made through the `log` facade is not.
    let before = seen.0.load(Ordering::SeqCst);
    log::warn!("log record");
    let bridged = seen.0.load(Ordering::SeqCst) - before;

    panic!(
        "C12 violated (clause: every emission that starts after reload returned is judged by the \
         new filter and the new maximum level): after {} rounds of two concurrent reloads, all of \
         which had returned, filter = {:?}, tracing max level = {:?}, but log max level = {:?}; \
         a WARN `tracing` event was delivered {} time(s), a WARN `log` record {} time(s)",
        rounds, current, tracing_max, log_max, native, bridged
    );
}
