#![cfg(all(feature = "registry", feature = "std"))]
use std::sync::{Arc, Mutex};
use tracing::span::Id;
use tracing_subscriber::prelude::*;
use tracing_subscriber::registry::LookupSpan;
use tracing_subscriber::subscribe::Context as Ctx;
use tracing_subscriber::{Registry, Subscribe};

#[derive(Clone, Default)]
struct Rec(Arc<Mutex<Vec<String>>>);

impl<C: tracing::Collect + for<'a> LookupSpan<'a>> Subscribe<C> for Rec {
    fn on_close(&self, id: Id, ctx: Ctx<'_, C>) {
        let name = ctx.span(&id).unwrap().name();
        self.0.lock().unwrap().push(format!("close {}", name));
        if name == "trigger" {
            // a span handle created and dropped while another span is closing
            let s = tracing::info_span!("nested");
            drop(s);
        }
    }
}

#[test]
fn nested() {
    let rec = Rec::default();
    let d = tracing::Dispatch::new(Registry::default().with(rec.clone()));
    tracing::dispatch::with_default(&d, || {
        let parent = tracing::info_span!("parent");
        let trigger = tracing::info_span!("trigger");
        parent.in_scope(|| drop(trigger));
        drop(parent);
    });
    let log = rec.0.lock().unwrap().clone();
    assert!(log.contains(&"close parent".to_string()), "{:?}", log);
}
