// exploration harness for C03 (not a deliverable)
#![cfg(feature = "std")]
use std::collections::HashMap;
use std::future::Future;
use std::pin::Pin;
use std::sync::atomic::{AtomicU64, Ordering};
use std::sync::{Arc, Mutex};
use std::task::{Context, Poll, RawWaker, RawWakerVTable, Waker};
use std::thread::ThreadId;
use tracing::span::{Attributes, Id, Record};
use tracing::{Collect, Dispatch, Event, Instrument, Metadata, Span};

#[derive(Debug, Clone, PartialEq)]
enum Call {
    New(u64),
    Clone(u64),
    Close(u64),
    Enter(u64, ThreadId),
    Exit(u64, ThreadId),
    Record(u64),
    Follows(u64, u64),
}

#[derive(Clone)]
struct Rec {
    name: &'static str,
    next: Arc<AtomicU64>,
    log: Arc<Mutex<Vec<Call>>>,
    enabled: bool,
}

impl Rec {
    fn new(name: &'static str, enabled: bool) -> Self {
        Rec {
            name,
            next: Arc::new(AtomicU64::new(1)),
            log: Arc::new(Mutex::new(Vec::new())),
            enabled,
        }
    }
    fn push(&self, c: Call) {
        self.log.lock().unwrap().push(c);
    }
}

impl Collect for Rec {
    fn enabled(&self, _: &Metadata<'_>) -> bool {
        self.enabled
    }
    fn new_span(&self, _: &Attributes<'_>) -> Id {
        let id = self.next.fetch_add(1, Ordering::SeqCst);
        self.push(Call::New(id));
        Id::from_u64(id)
    }
    fn record(&self, id: &Id, _: &Record<'_>) {
        self.push(Call::Record(id.into_u64()));
    }
    fn record_follows_from(&self, id: &Id, f: &Id) {
        self.push(Call::Follows(id.into_u64(), f.into_u64()));
    }
    fn event(&self, _: &Event<'_>) {}
    fn enter(&self, id: &Id) {
        self.push(Call::Enter(id.into_u64(), std::thread::current().id()));
    }
    fn exit(&self, id: &Id) {
        self.push(Call::Exit(id.into_u64(), std::thread::current().id()));
    }
    fn clone_span(&self, id: &Id) -> Id {
        self.push(Call::Clone(id.into_u64()));
        id.clone()
    }
    fn try_close(&self, id: Id) -> bool {
        self.push(Call::Close(id.into_u64()));
        false
    }
    fn current_span(&self) -> tracing_core::span::Current {
        // track current as the most recent un-exited enter on this thread
        let log = self.log.lock().unwrap();
        let me = std::thread::current().id();
        let mut stack = vec![];
        for c in log.iter() {
            match c {
                Call::Enter(i, t) if *t == me => stack.push(*i),
                Call::Exit(i, t) if *t == me => {
                    if let Some(p) = stack.iter().rposition(|x| x == i) {
                        stack.remove(p);
                    }
                }
                _ => {}
            }
        }
        let _ = self.name;
        match stack.last() {
            Some(i) => tracing_core::span::Current::new(Id::from_u64(*i), META.get().copied().unwrap()),
            None => tracing_core::span::Current::none(),
        }
    }
}

static META: std::sync::OnceLock<&'static Metadata<'static>> = std::sync::OnceLock::new();

struct Rng(u64);
impl Rng {
    fn next(&mut self) -> u64 {
        let mut x = self.0;
        x ^= x << 13;
        x ^= x >> 7;
        x ^= x << 17;
        self.0 = x;
        x
    }
    fn below(&mut self, n: usize) -> usize {
        (self.next() % n as u64) as usize
    }
}

struct PendN(usize);
impl Future for PendN {
    type Output = ();
    fn poll(mut self: Pin<&mut Self>, _: &mut Context<'_>) -> Poll<()> {
        if self.0 == 0 {
            Poll::Ready(())
        } else {
            self.0 -= 1;
            Poll::Pending
        }
    }
}

fn noop_waker() -> Waker {
    fn clone(_: *const ()) -> RawWaker {
        RawWaker::new(std::ptr::null(), &VT)
    }
    fn noop(_: *const ()) {}
    static VT: RawWakerVTable = RawWakerVTable::new(clone, noop, noop, noop);
    unsafe { Waker::from_raw(RawWaker::new(std::ptr::null(), &VT)) }
}

fn mk_span(kind: usize, parent: Option<&Span>) -> Span {
    let s = match kind {
        0 => tracing::info_span!("s", f = tracing::field::Empty),
        1 => tracing::info_span!(parent: None, "s", f = tracing::field::Empty),
        _ => match parent {
            Some(p) => tracing::info_span!(parent: p, "s", f = tracing::field::Empty),
            None => tracing::info_span!("s", f = tracing::field::Empty),
        },
    };
    if let Some(m) = s.metadata() {
        let _ = META.set(m);
    }
    s
}

fn check(rec: &Rec, expected_handles_created: &HashMap<u64, (u64, u64)>) {
    let log = rec.log.lock().unwrap().clone();
    let mut news: HashMap<u64, usize> = HashMap::new();
    let mut clones: HashMap<u64, usize> = HashMap::new();
    let mut closes: HashMap<u64, usize> = HashMap::new();
    let mut depth: HashMap<(u64, ThreadId), i64> = HashMap::new();
    let mut live: HashMap<u64, i64> = HashMap::new();
    for (i, c) in log.iter().enumerate() {
        match c {
            Call::New(id) => {
                *news.entry(*id).or_default() += 1;
                *live.entry(*id).or_default() += 1;
            }
            Call::Clone(id) => {
                assert!(live[id] > 0, "clone after last close at {} {:?}", i, log);
                *clones.entry(*id).or_default() += 1;
                *live.entry(*id).or_default() += 1;
            }
            Call::Close(id) => {
                assert!(live[id] > 0, "close after last close at {} {:?}", i, log);
                *closes.entry(*id).or_default() += 1;
                *live.entry(*id).or_default() -= 1;
            }
            Call::Enter(id, t) => {
                assert!(live[id] > 0, "enter after last close at {} {:?}", i, log);
                *depth.entry((*id, *t)).or_default() += 1;
            }
            Call::Exit(id, t) => {
                assert!(live[id] > 0, "exit after last close at {} {:?}", i, log);
                let d = depth.entry((*id, *t)).or_default();
                *d -= 1;
                assert!(*d >= 0, "exit without enter at {} {:?}", i, log);
            }
            Call::Record(id) | Call::Follows(id, _) => {
                assert!(live[id] > 0, "record after last close at {} {:?}", i, log);
            }
        }
    }
    for (k, d) in depth {
        assert_eq!(d, 0, "unbalanced enter/exit for {:?}: {:?}", k, log);
    }
    for (id, n) in &news {
        assert_eq!(*n, 1);
        let cl = clones.get(id).copied().unwrap_or(0);
        let cs = closes.get(id).copied().unwrap_or(0);
        assert_eq!(cl + 1, cs, "id {} clones {} closes {}: {:?}", id, cl, cs, log);
        if let Some((ec, ed)) = expected_handles_created.get(id) {
            assert_eq!(cl as u64, *ec, "expected clones for {}: {:?}", id, log);
            assert_eq!(cs as u64, *ed, "expected closes for {}: {:?}", id, log);
        }
    }
}

enum Obj {
    S(Span),
    E(tracing::span::EnteredSpan),
    F(Pin<Box<tracing::instrument::Instrumented<PendN>>>),
}

fn run(seed: u64, steps: usize) {
    let a = Rec::new("A", true);
    let b = Rec::new("B", true);
    let da = Dispatch::new(a.clone());
    let db = Dispatch::new(b.clone());
    let mut rng = Rng(seed.wrapping_mul(0x9E3779B97F4A7C15) | 1);
    let mut objs: Vec<Obj> = Vec::new();
    let waker = noop_waker();
    let mut total_b_calls_allowed = true;
    let _ = &mut total_b_calls_allowed;
    for _ in 0..steps {
        let which_default = rng.below(3);
        let guard = match which_default {
            0 => Some(tracing::dispatch::set_default(&da)),
            1 => Some(tracing::dispatch::set_default(&db)),
            _ => None,
        };
        let op = rng.below(14);
        match op {
            0 | 1 => {
                // create only under A so B only sees Span::current stuff
                let _g = tracing::dispatch::set_default(&da);
                let parent = objs.iter().find_map(|o| match o {
                    Obj::S(s) => Some(s),
                    _ => None,
                });
                let s = mk_span(rng.below(3), parent);
                objs.push(Obj::S(s));
            }
            2 => {
                if !objs.is_empty() {
                    let i = rng.below(objs.len());
                    let c = match &objs[i] {
                        Obj::S(s) => Some(s.clone()),
                        Obj::E(e) => Some(Span::clone(e)),
                        Obj::F(f) => Some(f.span().clone()),
                    };
                    if let Some(c) = c {
                        objs.push(Obj::S(c));
                    }
                }
            }
            3 | 4 => {
                if !objs.is_empty() {
                    let i = rng.below(objs.len());
                    drop(objs.remove(i));
                }
            }
            5 => {
                if !objs.is_empty() {
                    let i = rng.below(objs.len());
                    if let Obj::S(_) = &objs[i] {
                        if let Obj::S(s) = objs.remove(i) {
                            objs.push(Obj::E(s.entered()));
                        }
                    }
                }
            }
            6 => {
                if !objs.is_empty() {
                    let i = rng.below(objs.len());
                    if let Obj::E(_) = &objs[i] {
                        if let Obj::E(e) = objs.remove(i) {
                            objs.push(Obj::S(e.exit()));
                        }
                    }
                }
            }
            7 => {
                if !objs.is_empty() {
                    let i = rng.below(objs.len());
                    if let Obj::S(s) = &objs[i] {
                        s.in_scope(|| {
                            s.in_scope(|| {
                                let _c = Span::current();
                            })
                        });
                        s.record("f", 1);
                        let other = rng.below(objs.len());
                        if let Obj::S(o) = &objs[other] {
                            s.follows_from(o);
                        }
                    }
                }
            }
            8 => {
                objs.push(Obj::S(Span::current()));
            }
            9 => {
                let _g = tracing::dispatch::set_default(&da);
                let s = tracing::trace_span!("t").or_current();
                objs.push(Obj::S(s));
            }
            10 => {
                if !objs.is_empty() {
                    let i = rng.below(objs.len());
                    if let Obj::S(_) = &objs[i] {
                        if let Obj::S(s) = objs.remove(i) {
                            objs.push(Obj::F(Box::pin(PendN(rng.below(3)).instrument(s))));
                        }
                    }
                }
            }
            11 => {
                if !objs.is_empty() {
                    let i = rng.below(objs.len());
                    if let Obj::F(f) = &mut objs[i] {
                        let mut cx = Context::from_waker(&waker);
                        if f.as_mut().poll(&mut cx).is_ready() {
                            drop(objs.remove(i));
                        }
                    }
                }
            }
            12 => {
                // move a span to another thread and do stuff there
                if !objs.is_empty() {
                    let i = rng.below(objs.len());
                    if let Obj::S(_) = &objs[i] {
                        if let Obj::S(s) = objs.remove(i) {
                            let db2 = db.clone();
                            let keep = rng.below(2) == 0;
                            let r = std::thread::spawn(move || {
                                let _g = tracing::dispatch::set_default(&db2);
                                let c = s.clone();
                                let e = s.entered();
                                let g2 = c.enter();
                                drop(e);
                                drop(g2);
                                if keep {
                                    Some(c)
                                } else {
                                    None
                                }
                            })
                            .join()
                            .unwrap();
                            if let Some(c) = r {
                                objs.push(Obj::S(c));
                            }
                        }
                    }
                }
            }
            _ => {
                // guard borrowed enter, out-of-order
                let spans: Vec<&Span> = objs
                    .iter()
                    .filter_map(|o| match o {
                        Obj::S(s) => Some(s),
                        _ => None,
                    })
                    .collect();
                if spans.len() >= 2 {
                    let g1 = spans[0].enter();
                    let g2 = spans[1].enter();
                    let g3 = spans[0].enter();
                    drop(g1);
                    drop(g2);
                    drop(g3);
                }
            }
        }
        drop(guard);
    }
    // EnteredSpans must be dropped on this thread; drop in random order
    while !objs.is_empty() {
        let i = rng.below(objs.len());
        drop(objs.remove(i));
    }
    check(&a, &HashMap::new());
    check(&b, &HashMap::new());
}

#[test]
fn fuzz() {
    for seed in 1..400 {
        run(seed, 120);
    }
}
