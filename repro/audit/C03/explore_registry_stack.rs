// exploration harness for C03 on a Registry-backed stack (not a deliverable)
#![cfg(all(feature = "registry", feature = "std"))]
use std::collections::HashMap;
use std::future::Future;
use std::pin::Pin;
use std::sync::{Arc, Mutex};
use std::task::{Context, Poll, RawWaker, RawWakerVTable, Waker};
use std::thread::ThreadId;
use tracing::span::{Attributes, Id, Record};
use tracing::{Dispatch, Instrument, Span};
use tracing_subscriber::prelude::*;
use tracing_subscriber::registry::LookupSpan;
use tracing_subscriber::subscribe::Context as Ctx;
use tracing_subscriber::{Registry, Subscribe};

#[derive(Debug, Clone, PartialEq)]
enum Call {
    New(u64),
    Close(u64),
    Enter(u64, ThreadId),
    Exit(u64, ThreadId),
    Record(u64),
    Follows(u64, u64),
}

#[derive(Clone, Default)]
struct Rec {
    log: Arc<Mutex<Vec<Call>>>,
}
impl Rec {
    fn push(&self, c: Call) {
        self.log.lock().unwrap().push(c);
    }
}

impl<C: tracing::Collect + for<'a> LookupSpan<'a>> Subscribe<C> for Rec {
    fn on_new_span(&self, _: &Attributes<'_>, id: &Id, _: Ctx<'_, C>) {
        self.push(Call::New(id.into_u64()));
    }
    fn on_record(&self, id: &Id, _: &Record<'_>, _: Ctx<'_, C>) {
        self.push(Call::Record(id.into_u64()));
    }
    fn on_follows_from(&self, id: &Id, f: &Id, _: Ctx<'_, C>) {
        self.push(Call::Follows(id.into_u64(), f.into_u64()));
    }
    fn on_enter(&self, id: &Id, _: Ctx<'_, C>) {
        self.push(Call::Enter(id.into_u64(), std::thread::current().id()));
    }
    fn on_exit(&self, id: &Id, _: Ctx<'_, C>) {
        self.push(Call::Exit(id.into_u64(), std::thread::current().id()));
    }
    fn on_close(&self, id: Id, _: Ctx<'_, C>) {
        self.push(Call::Close(id.into_u64()));
    }
}

struct Rng(u64);
impl Rng {
    fn next(&mut self) -> u64 {
        let mut x = self.0;
        x ^= x << 13;
        x ^= x >> 7;
        x ^= x << 17;
        self.0 = x;
        x
    }
    fn below(&mut self, n: usize) -> usize {
        (self.next() % n as u64) as usize
    }
}

struct PendN(usize);
impl Future for PendN {
    type Output = ();
    fn poll(mut self: Pin<&mut Self>, _: &mut Context<'_>) -> Poll<()> {
        if self.0 == 0 {
            Poll::Ready(())
        } else {
            self.0 -= 1;
            Poll::Pending
        }
    }
}

fn noop_waker() -> Waker {
    fn clone(_: *const ()) -> RawWaker {
        RawWaker::new(std::ptr::null(), &VT)
    }
    fn noop(_: *const ()) {}
    static VT: RawWakerVTable = RawWakerVTable::new(clone, noop, noop, noop);
    unsafe { Waker::from_raw(RawWaker::new(std::ptr::null(), &VT)) }
}

fn mk_span(kind: usize, parent: Option<&Span>) -> Span {
    match kind {
        0 => tracing::info_span!("s", f = tracing::field::Empty),
        1 => tracing::info_span!(parent: None, "s", f = tracing::field::Empty),
        _ => match parent {
            Some(p) => tracing::info_span!(parent: p, "s", f = tracing::field::Empty),
            None => tracing::info_span!("s", f = tracing::field::Empty),
        },
    }
}

fn check(rec: &Rec) {
    let log = rec.log.lock().unwrap().clone();
    let mut news: HashMap<u64, usize> = HashMap::new();
    let mut closes: HashMap<u64, usize> = HashMap::new();
    let mut depth: HashMap<(u64, ThreadId), i64> = HashMap::new();
    let mut live: HashMap<u64, bool> = HashMap::new();
    for (i, c) in log.iter().enumerate() {
        match c {
            Call::New(id) => {
                *news.entry(*id).or_default() += 1;
                live.insert(*id, true);
            }
            Call::Close(id) => {
                assert!(live[id], "close after close at {} {:?}", i, log);
                *closes.entry(*id).or_default() += 1;
                live.insert(*id, false);
            }
            Call::Enter(id, t) => {
                assert!(live[id], "enter after close at {} {:?}", i, log);
                *depth.entry((*id, *t)).or_default() += 1;
            }
            Call::Exit(id, t) => {
                assert!(live[id], "exit after close at {} {:?}", i, log);
                let d = depth.entry((*id, *t)).or_default();
                *d -= 1;
                assert!(*d >= 0, "exit without enter at {} {:?}", i, log);
            }
            Call::Record(id) | Call::Follows(id, _) => {
                assert!(live[id], "record after close at {} {:?}", i, log);
            }
        }
    }
    for (k, d) in depth {
        assert_eq!(d, 0, "unbalanced enter/exit for {:?}: {:?}", k, log);
    }
    for (id, n) in &news {
        assert_eq!(*n, 1, "new twice (id reuse is possible though): {}", id);
        let cs = closes.get(id).copied().unwrap_or(0);
        assert_eq!(cs, 1, "id {} closes {}: {:?}", id, cs, log);
    }
}

enum Obj {
    S(Span),
    E(tracing::span::EnteredSpan),
    F(Pin<Box<tracing::instrument::Instrumented<PendN>>>),
}

fn run(seed: u64, steps: usize) {
    let a = Rec::default();
    let da = Dispatch::new(Registry::default().with(a.clone()));
    let mut rng = Rng(seed.wrapping_mul(0x9E3779B97F4A7C15) | 1);
    let mut objs: Vec<Obj> = Vec::new();
    let waker = noop_waker();
    let _g = tracing::dispatch::set_default(&da);
    for _ in 0..steps {
        let op = rng.below(14);
        match op {
            0 | 1 => {
                let parent = objs.iter().find_map(|o| match o {
                    Obj::S(s) => Some(s),
                    _ => None,
                });
                let s = mk_span(rng.below(3), parent);
                objs.push(Obj::S(s));
            }
            2 => {
                if !objs.is_empty() {
                    let i = rng.below(objs.len());
                    let c = match &objs[i] {
                        Obj::S(s) => Some(s.clone()),
                        Obj::E(e) => Some(Span::clone(e)),
                        Obj::F(f) => Some(f.span().clone()),
                    };
                    if let Some(c) = c {
                        objs.push(Obj::S(c));
                    }
                }
            }
            3 | 4 => {
                if !objs.is_empty() {
                    let i = rng.below(objs.len());
                    drop(objs.remove(i));
                }
            }
            5 => {
                if !objs.is_empty() {
                    let i = rng.below(objs.len());
                    if let Obj::S(_) = &objs[i] {
                        if let Obj::S(s) = objs.remove(i) {
                            objs.push(Obj::E(s.entered()));
                        }
                    }
                }
            }
            6 => {
                if !objs.is_empty() {
                    let i = rng.below(objs.len());
                    if let Obj::E(_) = &objs[i] {
                        if let Obj::E(e) = objs.remove(i) {
                            objs.push(Obj::S(e.exit()));
                        }
                    }
                }
            }
            7 => {
                if !objs.is_empty() {
                    let i = rng.below(objs.len());
                    if let Obj::S(s) = &objs[i] {
                        s.in_scope(|| {
                            s.in_scope(|| {
                                let _c = Span::current();
                            })
                        });
                        s.record("f", 1);
                        let other = rng.below(objs.len());
                        if let Obj::S(o) = &objs[other] {
                            s.follows_from(o);
                        }
                    }
                }
            }
            8 => {
                objs.push(Obj::S(Span::current()));
            }
            9 => {
                let s = tracing::trace_span!("t").or_current();
                objs.push(Obj::S(s));
            }
            10 => {
                if !objs.is_empty() {
                    let i = rng.below(objs.len());
                    if let Obj::S(_) = &objs[i] {
                        if let Obj::S(s) = objs.remove(i) {
                            objs.push(Obj::F(Box::pin(PendN(rng.below(3)).instrument(s))));
                        }
                    }
                }
            }
            11 => {
                if !objs.is_empty() {
                    let i = rng.below(objs.len());
                    if let Obj::F(f) = &mut objs[i] {
                        let mut cx = Context::from_waker(&waker);
                        if f.as_mut().poll(&mut cx).is_ready() {
                            drop(objs.remove(i));
                        }
                    }
                }
            }
            12 => {
                if !objs.is_empty() {
                    let i = rng.below(objs.len());
                    if let Obj::S(_) = &objs[i] {
                        if let Obj::S(s) = objs.remove(i) {
                            let d2 = da.clone();
                            let keep = rng.below(2) == 0;
                            let r = std::thread::spawn(move || {
                                let _g = tracing::dispatch::set_default(&d2);
                                let c = s.clone();
                                let e = s.entered();
                                let child = tracing::info_span!("child");
                                let g2 = c.enter();
                                drop(e);
                                drop(g2);
                                if keep {
                                    Some((c, child))
                                } else {
                                    None
                                }
                            })
                            .join()
                            .unwrap();
                            if let Some((c, ch)) = r {
                                objs.push(Obj::S(c));
                                objs.push(Obj::S(ch));
                            }
                        }
                    }
                }
            }
            _ => {
                let spans: Vec<&Span> = objs
                    .iter()
                    .filter_map(|o| match o {
                        Obj::S(s) => Some(s),
                        _ => None,
                    })
                    .collect();
                if spans.len() >= 2 {
                    let g1 = spans[0].enter();
                    let g2 = spans[1].enter();
                    let g3 = spans[0].enter();
                    drop(g1);
                    drop(g2);
                    drop(g3);
                }
            }
        }
    }
    while !objs.is_empty() {
        let i = rng.below(objs.len());
        drop(objs.remove(i));
    }
    check(&a);
}

#[test]
fn fuzz() {
    for seed in 1..400 {
        run(seed, 120);
    }
}
