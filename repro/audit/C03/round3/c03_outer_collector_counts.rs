//! C03 demonstration (unchanged code): what the collector a `Dispatch` was
//! built from -- "the collector that created the span" -- is told by a
//! trivial, single-threaded program whose default collector is that very
//! collector.
//!
//! The collector is a thin delegating wrapper (like `fmt::Collector`, `Box<C>`
//! or `Arc<C>`) around `Registry + layer`. The `Registry` takes its *internal*
//! references (the one held while a span is entered, the one a child holds on
//! its parent) with a direct, registry-only `self.clone_span(..)`, but gives
//! them back by calling `try_close` on the *whole* dispatcher. The creating
//! collector therefore receives close notifications that belong to no handle
//! and have no clone notification: 2 handles are created, 0 cloned, 2 dropped,
//! and the collector is told `try_close` 4 times.
//!
//! (The default is the owning collector here, so the notifications are not
//! misrouted -- there are simply too many of them.)
use std::sync::{Arc, Mutex};
use tracing::span::{Attributes, Id, Record};
use tracing::{Collect, Event, Metadata};
use tracing_core::span::Current;
use tracing_subscriber::prelude::*;

struct Recording<C> {
    inner: C,
    log: Arc<Mutex<Vec<String>>>,
}

impl<C: Collect> Collect for Recording<C> {
    fn register_callsite(&self, m: &'static Metadata<'static>) -> tracing_core::Interest {
        self.inner.register_callsite(m)
    }
    fn enabled(&self, m: &Metadata<'_>) -> bool {
        self.inner.enabled(m)
    }
    fn new_span(&self, a: &Attributes<'_>) -> Id {
        let id = self.inner.new_span(a);
        self.log
            .lock()
            .unwrap()
            .push(format!("new_span({}) -> {}", a.metadata().name(), id.into_u64()));
        id
    }
    fn record(&self, i: &Id, r: &Record<'_>) {
        self.inner.record(i, r)
    }
    fn record_follows_from(&self, a: &Id, b: &Id) {
        self.inner.record_follows_from(a, b)
    }
    fn event(&self, e: &Event<'_>) {
        self.inner.event(e)
    }
    fn enter(&self, i: &Id) {
        self.log.lock().unwrap().push(format!("enter({})", i.into_u64()));
        self.inner.enter(i)
    }
    fn exit(&self, i: &Id) {
        self.log.lock().unwrap().push(format!("exit({})", i.into_u64()));
        self.inner.exit(i)
    }
    fn clone_span(&self, i: &Id) -> Id {
        self.log
            .lock()
            .unwrap()
            .push(format!("clone_span({})", i.into_u64()));
        self.inner.clone_span(i)
    }
    fn try_close(&self, i: Id) -> bool {
        self.log
            .lock()
            .unwrap()
            .push(format!("try_close({})", i.into_u64()));
        self.inner.try_close(i)
    }
    fn current_span(&self) -> Current {
        self.inner.current_span()
    }
    unsafe fn downcast_raw(&self, id: std::any::TypeId) -> Option<std::ptr::NonNull<()>> {
        self.inner.downcast_raw(id)
    }
}

#[test]
fn creating_collector_sees_one_close_per_dropped_handle() {
    let log = Arc::new(Mutex::new(Vec::new()));
    let collector = Recording {
        inner: tracing_subscriber::registry().with(tracing_subscriber::subscribe::Identity::new()),
        log: log.clone(),
    };

    tracing::collect::with_default(collector, || {
        let parent = tracing::info_span!("parent"); // handle #1
        let child = tracing::info_span!(parent: &parent, "child"); // handle #2
        child.in_scope(|| {}); // one enter, one exit
        log.lock().unwrap().push("-- drop(child handle)".into());
        drop(child);
        log.lock().unwrap().push("-- drop(parent handle)".into());
        drop(parent);
    });

    let log = log.lock().unwrap().clone();
    println!("{:#?}", log);
    let count = |p: &str| log.iter().filter(|l| l.starts_with(p)).count();
    let (news, clones, closes) = (count("new_span"), count("clone_span"), count("try_close"));
    assert_eq!(
        closes,
        news + clones,
        "C03 `one clone notification per additional handle, exactly one close notification per \
         dropped handle`: {} handles were created, {} cloned and all of them dropped, but the \
         creating collector received {} close notifications: {:#?}",
        news,
        clones,
        closes,
        log
    );
}
