// exploratory randomized check of the span-handle protocol against a strict model collector
use std::collections::HashMap;
use std::future::Future;
use std::pin::Pin;
use std::sync::{Arc, Mutex};
use std::task::{Context, Poll, RawWaker, RawWakerVTable, Waker};
use std::thread::ThreadId;
use tracing::span::{Attributes, Id, Record};
use tracing::{Collect, Dispatch, Event, Instrument, Metadata, Span};
use tracing_core::span::Current;

#[derive(Default, Debug)]
struct SpanState {
    refs: isize,
    closed: bool,
    news: usize,
    clones: usize,
    closes: usize,
    entered: HashMap<ThreadId, isize>,
    violations: Vec<String>,
}

#[derive(Default)]
struct ModelInner {
    next: u64,
    spans: HashMap<u64, SpanState>,
    stack: HashMap<ThreadId, Vec<u64>>,
    violations: Vec<String>,
}

#[derive(Clone)]
struct Model {
    name: &'static str,
    base: u64,
    inner: Arc<Mutex<ModelInner>>,
}

impl Model {
    fn new(name: &'static str, base: u64) -> Self {
        Model {
            name,
            base,
            inner: Arc::new(Mutex::new(ModelInner::default())),
        }
    }
    fn with<T>(&self, id: &Id, what: &str, f: impl FnOnce(&mut SpanState, ThreadId) -> T) -> Option<T> {
        let mut g = self.inner.lock().unwrap();
        let tid = std::thread::current().id();
        let name = self.name;
        match g.spans.get_mut(&id.into_u64()) {
            Some(s) => {
                if s.closed {
                    let m = format!("{}: {} on span {:?} after its last close", name, what, id);
                    s.violations.push(m.clone());
                    g.violations.push(m);
                    return None;
                }
                Some(f(s, tid))
            }
            None => {
                g.violations
                    .push(format!("{}: {} for foreign/unknown id {:?}", name, what, id));
                None
            }
        }
    }
}

impl Collect for Model {
    fn enabled(&self, _: &Metadata<'_>) -> bool {
        true
    }
    fn new_span(&self, _: &Attributes<'_>) -> Id {
        let mut g = self.inner.lock().unwrap();
        g.next += 1;
        let id = self.base + g.next;
        let mut s = SpanState::default();
        s.refs = 1;
        s.news = 1;
        g.spans.insert(id, s);
        Id::from_u64(id)
    }
    fn record(&self, id: &Id, _: &Record<'_>) {
        self.with(id, "record", |_, _| ());
    }
    fn record_follows_from(&self, id: &Id, _: &Id) {
        self.with(id, "follows_from", |_, _| ());
    }
    fn event(&self, _: &Event<'_>) {}
    fn enter(&self, id: &Id) {
        self.with(id, "enter", |s, t| *s.entered.entry(t).or_default() += 1);
        let mut g = self.inner.lock().unwrap();
        g.stack
            .entry(std::thread::current().id())
            .or_default()
            .push(id.into_u64());
    }
    fn exit(&self, id: &Id) {
        let name = self.name;
        let bad = self
            .with(id, "exit", |s, t| {
                let e = s.entered.entry(t).or_default();
                *e -= 1;
                *e < 0
            })
            .unwrap_or(false);
        let mut g = self.inner.lock().unwrap();
        if bad {
            g.violations
                .push(format!("{}: exit without enter on this thread for {:?}", name, id));
        }
        let st = g.stack.entry(std::thread::current().id()).or_default();
        if let Some(pos) = st.iter().rposition(|x| *x == id.into_u64()) {
            st.remove(pos);
        }
    }
    fn clone_span(&self, id: &Id) -> Id {
        self.with(id, "clone_span", |s, _| {
            s.refs += 1;
            s.clones += 1;
        });
        id.clone()
    }
    fn try_close(&self, id: Id) -> bool {
        self.with(&id, "try_close", |s, _| {
            s.refs -= 1;
            s.closes += 1;
            if s.refs == 0 {
                s.closed = true;
                true
            } else {
                false
            }
        })
        .unwrap_or(false)
    }
    fn current_span(&self) -> Current {
        let g = self.inner.lock().unwrap();
        static META: once::Meta = once::Meta;
        let _ = &META;
        match g
            .stack
            .get(&std::thread::current().id())
            .and_then(|s| s.last())
        {
            Some(id) => Current::new(Id::from_u64(*id), once::meta()),
            None => Current::none(),
        }
    }
}

mod once {
    pub struct Meta;
    pub fn meta() -> &'static tracing::Metadata<'static> {
        let span = tracing::Span::none();
        let _ = span;
        static CS: Cs = Cs;
        struct Cs;
        impl tracing_core::callsite::Callsite for Cs {
            fn set_interest(&self, _: tracing_core::Interest) {}
            fn metadata(&self) -> &tracing::Metadata<'_> {
                &M
            }
        }
        static M: tracing::Metadata<'static> = tracing_core::metadata! {
            name: "cur",
            target: "t",
            level: tracing_core::Level::INFO,
            fields: &[],
            callsite: &CS,
            kind: tracing_core::metadata::Kind::SPAN,
        };
        &M
    }
}

struct Rng(u64);
impl Rng {
    fn next(&mut self) -> u64 {
        self.0 ^= self.0 << 13;
        self.0 ^= self.0 >> 7;
        self.0 ^= self.0 << 17;
        self.0
    }
    fn below(&mut self, n: usize) -> usize {
        (self.next() % n as u64) as usize
    }
}

fn noop_waker() -> Waker {
    fn clone(_: *const ()) -> RawWaker {
        RawWaker::new(std::ptr::null(), &VT)
    }
    fn noop(_: *const ()) {}
    static VT: RawWakerVTable = RawWakerVTable::new(clone, noop, noop, noop);
    unsafe { Waker::from_raw(RawWaker::new(std::ptr::null(), &VT)) }
}

struct Countdown(usize, Option<Span>);
impl Future for Countdown {
    type Output = ();
    fn poll(mut self: Pin<&mut Self>, _: &mut Context<'_>) -> Poll<()> {
        // do some span work inside the poll
        let s = tracing::info_span!("in_poll");
        let _e = s.enter();
        let c = Span::current();
        drop(c);
        if self.0 == 0 {
            Poll::Ready(())
        } else {
            self.0 -= 1;
            Poll::Pending
        }
    }
}
impl Drop for Countdown {
    fn drop(&mut self) {
        let s = tracing::info_span!("in_drop");
        s.in_scope(|| {
            self.1.take();
        });
    }
}

type Fut = Pin<Box<dyn Future<Output = ()> + Send>>;

struct World {
    handles: Vec<Span>,
    futs: Vec<Fut>,
}

fn step(rng: &mut Rng, w: &mut World, guards: &mut Vec<tracing::span::EnteredSpan>, depth: usize) {
    let n = w.handles.len();
    match rng.below(16) {
        0 => w.handles.push(tracing::info_span!("ctx", a = 1, b = tracing::field::Empty)),
        1 if n > 0 => {
            let p = &w.handles[rng.below(n)];
            let s = tracing::info_span!(parent: p, "explicit", b = tracing::field::Empty);
            w.handles.push(s);
        }
        2 => w.handles.push(tracing::info_span!(parent: None, "root", b = tracing::field::Empty)),
        3 if n > 0 => {
            let c = w.handles[rng.below(n)].clone();
            w.handles.push(c);
        }
        4 | 5 if n > 0 => {
            let i = rng.below(n);
            drop(w.handles.swap_remove(i));
        }
        6 if n > 0 => {
            let i = rng.below(n);
            let h = w.handles.swap_remove(i);
            guards.push(h.entered());
        }
        7 | 8 if !guards.is_empty() => {
            let i = rng.below(guards.len());
            let g = guards.remove(i);
            if rng.below(2) == 0 {
                w.handles.push(g.exit());
            } else {
                drop(g);
            }
        }
        9 if n > 0 && depth < 3 => {
            let i = rng.below(n);
            let h = w.handles[i].clone();
            h.in_scope(|| {
                let k = rng.below(4);
                for _ in 0..k {
                    step(rng, w, guards, depth + 1);
                }
            });
        }
        10 if n > 0 => {
            let i = rng.below(n);
            w.handles[i].record("b", 3);
            let j = rng.below(n);
            let other = w.handles[j].clone();
            w.handles[i].follows_from(&other);
            w.handles[i].follows_from(other.id());
        }
        11 => w.handles.push(Span::current()),
        12 => {
            let s = if rng.below(2) == 0 {
                Span::none()
            } else {
                tracing::info_span!("oc")
            };
            w.handles.push(s.or_current());
        }
        13 => {
            let sp = if n > 0 && rng.below(2) == 0 {
                w.handles[rng.below(n)].clone()
            } else {
                tracing::info_span!("fut")
            };
            let carried = if n > 0 { Some(w.handles[rng.below(n)].clone()) } else { None };
            let f = Countdown(rng.below(3), carried);
            let f: Fut = if rng.below(4) == 0 {
                Box::pin(f.in_current_span())
            } else {
                Box::pin(f.instrument(sp))
            };
            w.futs.push(f);
        }
        14 if !w.futs.is_empty() => {
            let i = rng.below(w.futs.len());
            let waker = noop_waker();
            let mut cx = Context::from_waker(&waker);
            if w.futs[i].as_mut().poll(&mut cx).is_ready() {
                drop(w.futs.swap_remove(i));
            }
        }
        15 if !w.futs.is_empty() => {
            let i = rng.below(w.futs.len());
            drop(w.futs.swap_remove(i));
        }
        _ => {}
    }
}

fn run_seed(seed: u64) -> Vec<String> {
    let m1 = Model::new("M1", 1000);
    let m2 = Model::new("M2", 0);
    let d1 = Dispatch::new(m1.clone());
    let d2 = Dispatch::new(m2.clone());
    let mut rng = Rng(seed.wrapping_mul(0x9E3779B97F4A7C15) | 1);
    let mut w = World { handles: vec![], futs: vec![] };

    for _round in 0..6 {
        let which = rng.below(3);
        let on_thread = rng.below(2) == 0;
        let steps = 10 + rng.below(30);
        let sub = rng.next();
        let d = match which {
            0 => Some(d1.clone()),
            1 => Some(d2.clone()),
            _ => None,
        };
        let body = move |mut w: World| -> World {
            let mut rng = Rng(sub | 1);
            let _g = d.as_ref().map(tracing::dispatch::set_default);
            let mut guards = Vec::new();
            for _ in 0..steps {
                step(&mut rng, &mut w, &mut guards, 0);
            }
            // guards cannot leave the thread: drop in random order
            while !guards.is_empty() {
                let i = rng.below(guards.len());
                let g = guards.remove(i);
                w.handles.push(g.exit());
            }
            w
        };
        w = if on_thread {
            std::thread::spawn(move || body(w)).join().unwrap()
        } else {
            body(w)
        };
    }
    drop(w);

    let mut out = Vec::new();
    for m in [&m1, &m2] {
        let g = m.inner.lock().unwrap();
        if std::env::var("C03_STATS").is_ok() { let (mut c, mut e) = (0,0); for s in g.spans.values() { c += s.clones; e += s.entered.len(); } eprintln!("{} spans {} clones {} enteredthreads {}", m.name, g.spans.len(), c, e); }
        out.extend(g.violations.iter().cloned());
        for (id, s) in g.spans.iter() {
            if !s.closed {
                out.push(format!("{}: span {} never closed: {:?}", m.name, id, s));
            }
            if s.closes != s.clones + 1 {
                out.push(format!("{}: span {} closes {} != clones {} + 1", m.name, id, s.closes, s.clones));
            }
            for (t, e) in s.entered.iter() {
                if *e != 0 {
                    out.push(format!("{}: span {} enter/exit imbalance {} on {:?}", m.name, id, e, t));
                }
            }
        }
    }
    out
}

#[test]
fn fuzz_model() {
    for seed in 1..400u64 {
        let v = run_seed(seed);
        assert!(v.is_empty(), "seed {}: {:#?}", seed, &v[..v.len().min(8)]);
    }
}

// ---------- Registry + recording layer, default always the owning collector ----------
use tracing_subscriber::prelude::*;
use tracing_subscriber::registry::LookupSpan;

#[derive(Default)]
struct LayerState {
    spans: HashMap<u64, (usize, bool, HashMap<ThreadId, isize>)>, // news, closed, entered
    violations: Vec<String>,
    open: isize,
}
#[derive(Clone, Default)]
struct Rec(Arc<Mutex<LayerState>>);

impl<C: Collect + for<'a> LookupSpan<'a>> tracing_subscriber::Subscribe<C> for Rec {
    fn on_new_span(&self, _: &Attributes<'_>, id: &Id, ctx: tracing_subscriber::subscribe::Context<'_, C>) {
        let mut g = self.0.lock().unwrap();
        if ctx.span(id).is_none() {
            g.violations.push(format!("on_new_span: no data for {:?}", id));
        }
        g.open += 1;
        let e = g.spans.entry(id.into_u64()).or_insert((0, false, HashMap::new()));
        if e.0 > 0 && !e.1 {
            let m = format!("second on_new_span for open span {:?}", id);
            g.violations.push(m);
        } else {
            *g.spans.get_mut(&id.into_u64()).unwrap() = (1, false, HashMap::new());
        }
    }
    fn on_enter(&self, id: &Id, ctx: tracing_subscriber::subscribe::Context<'_, C>) {
        let mut g = self.0.lock().unwrap();
        let t = std::thread::current().id();
        if ctx.span(id).is_none() {
            g.violations.push(format!("on_enter: no data for {:?}", id));
        }
        match g.spans.get_mut(&id.into_u64()) {
            Some(s) if !s.1 => *s.2.entry(t).or_default() += 1,
            _ => g.violations.push(format!("on_enter for closed/unknown {:?}", id)),
        }
    }
    fn on_exit(&self, id: &Id, ctx: tracing_subscriber::subscribe::Context<'_, C>) {
        let mut g = self.0.lock().unwrap();
        let t = std::thread::current().id();
        if ctx.span(id).is_none() {
            g.violations.push(format!("on_exit: no data for {:?}", id));
        }
        let mut bad = None;
        match g.spans.get_mut(&id.into_u64()) {
            Some(s) if !s.1 => {
                let e = s.2.entry(t).or_default();
                *e -= 1;
                if *e < 0 {
                    bad = Some(format!("on_exit without on_enter {:?}", id));
                }
            }
            _ => bad = Some(format!("on_exit for closed/unknown {:?}", id)),
        }
        if let Some(b) = bad {
            g.violations.push(b);
        }
    }
    fn on_record(&self, id: &Id, _: &Record<'_>, ctx: tracing_subscriber::subscribe::Context<'_, C>) {
        let mut g = self.0.lock().unwrap();
        if ctx.span(id).is_none() {
            g.violations.push(format!("on_record: no data for {:?}", id));
        }
        match g.spans.get(&id.into_u64()) {
            Some(s) if !s.1 => {}
            _ => g.violations.push(format!("on_record for closed/unknown {:?}", id)),
        }
    }
    fn on_close(&self, id: Id, ctx: tracing_subscriber::subscribe::Context<'_, C>) {
        let mut g = self.0.lock().unwrap();
        if ctx.span(&id).is_none() {
            g.violations.push(format!("on_close: no data for {:?}", id));
        }
        g.open -= 1;
        let mut bad = None;
        match g.spans.get_mut(&id.into_u64()) {
            Some(s) if !s.1 => {
                s.1 = true;
                if s.2.values().any(|v| *v != 0) {
                    bad = Some(format!("on_close while entered {:?}: {:?}", id, s.2));
                }
            }
            _ => bad = Some(format!("on_close for closed/unknown {:?}", id)),
        }
        if let Some(b) = bad {
            g.violations.push(b);
        }
    }
}

struct Counting<C> {
    inner: C,
    counts: Arc<Mutex<(usize, usize, usize)>>, // new, clone, try_close
}
impl<C: Collect> Collect for Counting<C> {
    fn register_callsite(&self, m: &'static Metadata<'static>) -> tracing_core::Interest {
        self.inner.register_callsite(m)
    }
    fn enabled(&self, m: &Metadata<'_>) -> bool {
        self.inner.enabled(m)
    }
    fn new_span(&self, a: &Attributes<'_>) -> Id {
        self.counts.lock().unwrap().0 += 1;
        self.inner.new_span(a)
    }
    fn record(&self, i: &Id, r: &Record<'_>) {
        self.inner.record(i, r)
    }
    fn record_follows_from(&self, a: &Id, b: &Id) {
        self.inner.record_follows_from(a, b)
    }
    fn event(&self, e: &Event<'_>) {
        self.inner.event(e)
    }
    fn enter(&self, i: &Id) {
        self.inner.enter(i)
    }
    fn exit(&self, i: &Id) {
        self.inner.exit(i)
    }
    fn clone_span(&self, i: &Id) -> Id {
        self.counts.lock().unwrap().1 += 1;
        self.inner.clone_span(i)
    }
    fn try_close(&self, i: Id) -> bool {
        self.counts.lock().unwrap().2 += 1;
        self.inner.try_close(i)
    }
    fn current_span(&self) -> Current {
        self.inner.current_span()
    }
    unsafe fn downcast_raw(&self, id: std::any::TypeId) -> Option<std::ptr::NonNull<()>> {
        self.inner.downcast_raw(id)
    }
}

fn run_seed_registry(seed: u64) -> Vec<String> {
    let rec = Rec::default();
    let counts = Arc::new(Mutex::new((0, 0, 0)));
    let stack = tracing_subscriber::registry().with(rec.clone());
    let d = Dispatch::new(Counting { inner: stack, counts: counts.clone() });
    let mut rng = Rng(seed.wrapping_mul(0x9E3779B97F4A7C15) | 1);
    let mut w = World { handles: vec![], futs: vec![] };
    for _round in 0..6 {
        let on_thread = rng.below(2) == 0;
        let steps = 10 + rng.below(30);
        let sub = rng.next();
        let d = d.clone();
        let body = move |mut w: World| -> World {
            let mut rng = Rng(sub | 1);
            let _g = tracing::dispatch::set_default(&d);
            let mut guards = Vec::new();
            for _ in 0..steps {
                step(&mut rng, &mut w, &mut guards, 0);
            }
            while !guards.is_empty() {
                let i = rng.below(guards.len());
                let g = guards.remove(i);
                w.handles.push(g.exit());
            }
            w
        };
        w = if on_thread {
            std::thread::spawn(move || body(w)).join().unwrap()
        } else {
            body(w)
        };
    }
    {
        let _g = tracing::dispatch::set_default(&d);
        drop(w);
    }
    let g = rec.0.lock().unwrap();
    let mut out = g.violations.clone();
    if g.open != 0 {
        out.push(format!("{} spans never closed", g.open));
    }
    let c = counts.lock().unwrap();
    if std::env::var("C03_STATS").is_ok() {
        eprintln!("counts new {} clone {} try_close {}", c.0, c.1, c.2);
    }
    out
}

#[test]
fn fuzz_registry() {
    for seed in 1..400u64 {
        let v = run_seed_registry(seed);
        assert!(v.is_empty(), "seed {}: {:#?}", seed, &v[..v.len().min(8)]);
    }
}
