//! C03 demonstration (unchanged code): an `EnteredSpan` guard that lives in a
//! thread-local is dropped -- `exit`, then the handle's close notification --
//! while the thread's locals are being destroyed.
//!
//! By then the `thread_local` crate has already given the thread's slot key
//! back, so `Registry::exit` finds no span stack (`current_spans.get()` is
//! `None`), silently ignores the exit and never releases the reference that
//! `Registry::enter` took. Consequences:
//!
//!   * the span is never closed although every handle has been dropped and
//!     every enter was followed by an exit (no `on_close`, slot leaked);
//!   * the stale stack entry is inherited by the *next* thread that is handed
//!     the same slot: a thread that entered and exited only its own span is
//!     "inside" the dead thread's span.
//!
//! The default collector is the span's own collector throughout (it is the
//! global default), so this is independent of which dispatcher
//! `Registry::exit` uses to release the reference.
use std::cell::RefCell;
use std::sync::{Arc, Mutex};
use tracing::span::{Attributes, EnteredSpan, Id};
use tracing_subscriber::{prelude::*, registry::LookupSpan, subscribe::Context};

#[derive(Clone, Default)]
struct Log(Arc<Mutex<Vec<String>>>);

impl<C> tracing_subscriber::Subscribe<C> for Log
where
    C: tracing::Collect + for<'a> LookupSpan<'a>,
{
    fn on_new_span(&self, a: &Attributes<'_>, _: &Id, _: Context<'_, C>) {
        self.0
            .lock()
            .unwrap()
            .push(format!("new {}", a.metadata().name()));
    }
    fn on_enter(&self, id: &Id, cx: Context<'_, C>) {
        let name = cx.span(id).unwrap().name();
        self.0.lock().unwrap().push(format!("enter {}", name));
    }
    fn on_exit(&self, id: &Id, cx: Context<'_, C>) {
        let name = cx.span(id).unwrap().name();
        self.0.lock().unwrap().push(format!("exit {}", name));
    }
    fn on_close(&self, id: Id, cx: Context<'_, C>) {
        let name = cx.span(&id).unwrap().name();
        self.0.lock().unwrap().push(format!("close {}", name));
    }
}

thread_local! {
    // a per-thread "root span" that stays entered for as long as the thread lives
    static THREAD_SPAN: RefCell<Option<EnteredSpan>> = RefCell::new(None);
}

#[test]
fn guard_dropped_while_thread_locals_are_destroyed() {
    let log = Log::default();
    let collector = tracing_subscriber::registry().with(log.clone());
    tracing::collect::set_global_default(collector).unwrap();

    // ---- thread 1: create + enter; the guard (the only handle) lives in a
    // thread-local and is dropped when the thread ends.
    std::thread::spawn(|| {
        THREAD_SPAN.with(|slot| {
            *slot.borrow_mut() = Some(tracing::info_span!("thread_root").entered());
        });
        // ... the thread does its work inside `thread_root` ...
    })
    .join()
    .unwrap();

    let seen_after_thread_1 = log.0.lock().unwrap().clone();
    println!("after thread 1 ended the collector saw: {:?}", seen_after_thread_1);

    // ---- thread 2: a brand new thread that enters and exits one span of its
    // own and holds no guard afterwards.
    let (current, parent_of_new) = std::thread::spawn(|| {
        tracing::info_span!("own").in_scope(|| {});
        // nothing is entered on this thread any more
        let current = tracing::Span::current();
        let current = current.metadata().map(|m| m.name());
        let unrelated = tracing::info_span!("unrelated");
        let parent = unrelated
            .with_collector(|(id, d)| {
                let reg = d.downcast_ref::<tracing_subscriber::Registry>().unwrap();
                reg.span(id).unwrap().parent().map(|p| p.name())
            })
            .flatten();
        (current, parent)
    })
    .join()
    .unwrap();
    println!(
        "thread 2 (nothing entered): Span::current() = {:?}, parent of a new contextual span = {:?}",
        current, parent_of_new
    );

    let mut violations = Vec::new();
    if seen_after_thread_1
        != [
            "new thread_root",
            "enter thread_root",
            "exit thread_root",
            "close thread_root",
        ]
    {
        violations.push(format!(
            "C03 `exactly one close notification per dropped handle` + `every enter matched by one \
             exit`: thread_root was entered once, exited once and its only handle was dropped, but \
             the span was never closed; collector saw {:?}",
            seen_after_thread_1
        ));
    }
    if current.is_some() || parent_of_new.is_some() {
        violations.push(format!(
            "C03 `every enter matched by one exit on the same thread`: a thread that has exited \
             everything it entered is still inside the dead thread's span: Span::current() = {:?}, \
             contextual parent of a new span = {:?}",
            current, parent_of_new
        ));
    }
    assert!(violations.is_empty(), "{:#?}", violations);
}
