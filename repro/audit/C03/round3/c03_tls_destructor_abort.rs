//! C03 demonstration (unchanged code): a finite program over the Span API whose
//! create / enter happens in a thread-local destructor (a per-thread resource
//! with an instrumented `Drop`, an instrumented future dropped together with
//! a thread-local executor, ...).
//!
//! When the thread has used the `Registry` before, the registry's own
//! per-thread keys (`sharded_slab`'s `Tid` registration and the `thread_local`
//! crate's thread id guard) were registered *after* the user's thread-local
//! and are therefore destroyed *before* it. `Registry::new_span`
//! (`Pool::create_with` with a poisoned `Tid`) and `Registry::enter`
//! (`ThreadLocal::get_or_default`) then panic inside the collector; a panic in
//! a thread-local destructor aborts the whole process.
//!
//! The scenarios run in a child process (this same test binary) so that the
//! abort can be observed and reported as an assertion failure.
use std::cell::RefCell;
use std::process::Command;
use tracing_subscriber::prelude::*;

struct CreatesOnDrop;
impl Drop for CreatesOnDrop {
    fn drop(&mut self) {
        // an instrumented clean-up routine
        let span = tracing::info_span!("cleanup");
        let _e = span.enter();
    }
}

struct EntersOnDrop(RefCell<Option<tracing::Span>>);
impl Drop for EntersOnDrop {
    fn drop(&mut self) {
        // the handle exists already; only enter/exit/close happen here
        if let Some(span) = self.0.borrow_mut().take() {
            span.in_scope(|| {});
        }
    }
}

type Task = std::pin::Pin<Box<dyn std::future::Future<Output = ()>>>;

thread_local! {
    static CREATES: CreatesOnDrop = CreatesOnDrop;
    static ENTERS: EntersOnDrop = EntersOnDrop(RefCell::new(None));
    // the task queue of a per-thread executor: unfinished tasks are dropped with the thread
    static TASKS: RefCell<Vec<Task>> = RefCell::new(Vec::new());
}

fn child(mode: &str) {
    tracing::collect::set_global_default(
        tracing_subscriber::registry().with(tracing_subscriber::fmt::subscriber()),
    )
    .unwrap();
    let mode = mode.to_owned();
    std::thread::spawn(move || {
        match &*mode {
            "create" => CREATES.with(|_| {}),
            "enter" => ENTERS.with(|e| {
                *e.0.borrow_mut() = Some(tracing::info_span!("cleanup"));
            }),
            "drop_instrumented_future" => TASKS.with(|t| {
                use tracing::Instrument;
                let task = async {}.instrument(tracing::info_span!("task"));
                t.borrow_mut().push(Box::pin(task));
            }),
            _ => unreachable!(),
        }
        // ordinary work: the thread uses spans of the same collector
        tracing::info_span!("work").in_scope(|| {});
    })
    .join()
    .unwrap();
    println!("CHILD-COMPLETED");
}

#[test]
fn span_api_in_thread_local_destructor() {
    if let Ok(mode) = std::env::var("C03_CHILD") {
        return child(&mode);
    }
    let mut violations = Vec::new();
    for mode in ["create", "enter", "drop_instrumented_future"] {
        let out = Command::new(std::env::current_exe().unwrap())
            .env("C03_CHILD", mode)
            .env("RUST_BACKTRACE", "0")
            .args(["--exact", "span_api_in_thread_local_destructor", "--nocapture"])
            .output()
            .unwrap();
        let stderr = String::from_utf8_lossy(&out.stderr);
        let stdout = String::from_utf8_lossy(&out.stdout);
        println!("--- child `{}`: {:?}\n{}", mode, out.status, stderr);
        if !out.status.success() || !stdout.contains("CHILD-COMPLETED") {
            let panic_msg: Vec<&str> = stderr
                .lines()
                .filter(|l| {
                    l.contains("panicked at")
                        || l.contains("Thread count overflowed")
                        || l.contains("Thread Local Storage")
                        || l.contains("fatal runtime error")
                })
                .collect();
            violations.push(format!(
                "C03 (`for any program that creates / enters ... the collector sees exactly one \
                 creation ... every enter matched by one exit`): `{}` of a span in a thread-local \
                 destructor kills the process ({:?}): {:?}",
                mode, out.status, panic_msg
            ));
        }
    }
    assert!(violations.is_empty(), "{:#?}", violations);
}
