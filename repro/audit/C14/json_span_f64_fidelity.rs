//! C14 demonstration: an `f64` span field does not come out equal to what was
//! recorded. Span fields are stored as JSON text and re-parsed with
//! `serde_json::from_str` (whose default float parsing is not exact) every time
//! the span is printed and every time more fields are recorded.
#![cfg(feature = "json")]
use std::io;
use std::sync::{Arc, Mutex};
use tracing::collect::with_default;
use tracing_subscriber::fmt::MakeWriter;

#[derive(Clone, Default)]
struct Buf(Arc<Mutex<Vec<u8>>>);
impl io::Write for Buf {
    fn write(&mut self, b: &[u8]) -> io::Result<usize> {
        self.0.lock().unwrap().extend_from_slice(b);
        Ok(b.len())
    }
    fn flush(&mut self) -> io::Result<()> {
        Ok(())
    }
}
impl<'a> MakeWriter<'a> for Buf {
    type Writer = Buf;
    fn make_writer(&'a self) -> Buf {
        self.clone()
    }
}
impl Buf {
    fn take(&self) -> String {
        String::from_utf8(std::mem::take(&mut *self.0.lock().unwrap())).unwrap()
    }
}

/// Reads the number token that follows `"<key>":` at or after `from` and parses
/// it with the (exact) std float parser, so that the check does not depend on
/// serde_json's own float parsing.
fn number_after(line: &str, from: &str, key: &str) -> f64 {
    let start = line.find(from).expect("section present");
    let pat = format!("\"{}\":", key);
    let at = start + line[start..].find(&pat).expect("key present") + pat.len();
    let tok: String = line[at..]
        .chars()
        .take_while(|c| c.is_ascii_digit() || matches!(c, '.' | '-' | '+' | 'e' | 'E'))
        .collect();
    tok.parse::<f64>().expect("a JSON number")
}

const Y: f64 = 123456789.12345679;

#[test]
fn f64_span_field_is_printed_as_recorded() {
    let buf = Buf::default();
    let collector = tracing_subscriber::fmt()
        .json()
        .with_writer(buf.clone())
        .finish();
    with_default(collector, || {
        let span = tracing::info_span!("s", y = Y);
        let _e = span.enter();
        tracing::info!(y = Y, "hello");
    });
    let out = buf.take();
    let line = out.lines().next().unwrap();
    // sanity: the line is one JSON object
    let _: serde_json::Value = serde_json::from_str(line).unwrap();
    // the *event* field is exact ...
    assert_eq!(number_after(line, "\"fields\":", "y").to_bits(), Y.to_bits());
    // ... the span field is not
    let got = number_after(line, "\"span\":", "y");
    assert_eq!(
        got.to_bits(),
        Y.to_bits(),
        "C14 clause violated: `each span field appears with a value equal to what was recorded` \
         -- recorded f64 {:?}, `span.y` printed as {:?}; line: {}",
        Y,
        got,
        line
    );
}

#[test]
fn f64_span_field_survives_later_records() {
    let buf = Buf::default();
    let collector = tracing_subscriber::fmt()
        .json()
        .with_current_span(false)
        .with_writer(buf.clone())
        .finish();
    with_default(collector, || {
        let span = tracing::info_span!("s", y = Y, n = tracing::field::Empty);
        for i in 0..8u64 {
            span.record("n", i);
        }
        let _e = span.enter();
        tracing::info!("hello");
    });
    let out = buf.take();
    let line = out.lines().next().unwrap();
    let got = number_after(line, "\"spans\":", "y");
    assert_eq!(
        got.to_bits(),
        Y.to_bits(),
        "C14 clause violated: `each span field (including fields recorded after the span was \
         created, in any number of steps) appears with a value equal to what was recorded` \
         -- recorded f64 {:?}, after 8 later `record` calls `spans[0].y` is {:?}; line: {}",
        Y,
        got,
        line
    );
}
