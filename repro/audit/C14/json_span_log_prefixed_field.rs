//! C14 demonstration: a span field whose name starts with `log.` and whose value
//! is recorded through `record_debug` (`?x`, `%x`, errors, i128/u128, ...) never
//! appears in the JSON output, neither when given at span creation nor when
//! recorded later. The same field on an event is printed.
#![cfg(all(feature = "json", feature = "tracing-log"))]
use std::io;
use std::sync::{Arc, Mutex};
use tracing::collect::with_default;
use tracing_subscriber::fmt::MakeWriter;

#[derive(Clone, Default)]
struct Buf(Arc<Mutex<Vec<u8>>>);
impl io::Write for Buf {
    fn write(&mut self, b: &[u8]) -> io::Result<usize> {
        self.0.lock().unwrap().extend_from_slice(b);
        Ok(b.len())
    }
    fn flush(&mut self) -> io::Result<()> {
        Ok(())
    }
}
impl<'a> MakeWriter<'a> for Buf {
    type Writer = Buf;
    fn make_writer(&'a self) -> Buf {
        self.clone()
    }
}

#[test]
fn log_prefixed_span_fields_are_printed() {
    let buf = Buf::default();
    let collector = tracing_subscriber::fmt()
        .json()
        .with_writer(buf.clone())
        .finish();
    with_default(collector, || {
        let span = tracing::info_span!(
            "s",
            log.retention = %"7d",
            log.shard = tracing::field::Empty,
            other = 1
        );
        span.record("log.shard", tracing::field::debug(3));
        let _e = span.enter();
        tracing::info!(log.retention = %"7d", "hello");
    });
    let out = String::from_utf8(buf.0.lock().unwrap().clone()).unwrap();
    let line = out.lines().next().unwrap();
    let rec: serde_json::Value = serde_json::from_str(line).unwrap();
    // an event field of that name is printed ...
    assert_eq!(rec["fields"]["log.retention"], "7d");
    // ... the span's fields of that form are not
    assert_eq!(rec["span"]["other"], 1);
    assert_eq!(
        rec["span"]["log.retention"], "7d",
        "C14 clause violated: `each span field appears with a value equal to what was recorded` \
         -- span field `log.retention = %\"7d\"` is missing; line: {}",
        line
    );
    assert_eq!(
        rec["span"]["log.shard"], "3",
        "C14 clause violated: `fields recorded after the span was created` -- span field \
         `log.shard` recorded later as `?3` is missing; line: {}",
        line
    );
}
