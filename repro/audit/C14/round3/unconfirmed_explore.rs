#![cfg(feature = "json")]
use std::io;
use std::sync::{Arc, Mutex};
use tracing_subscriber::fmt::MakeWriter;
use tracing_subscriber::prelude::*;

#[derive(Clone, Default)]
struct Buf(Arc<Mutex<Vec<u8>>>);
impl io::Write for Buf {
    fn write(&mut self, b: &[u8]) -> io::Result<usize> {
        self.0.lock().unwrap().extend_from_slice(b);
        Ok(b.len())
    }
    fn flush(&mut self) -> io::Result<()> {
        Ok(())
    }
}
impl<'a> MakeWriter<'a> for Buf {
    type Writer = Buf;
    fn make_writer(&'a self) -> Buf {
        self.clone()
    }
}
impl Buf {
    fn s(&self) -> String {
        String::from_utf8(self.0.lock().unwrap().clone()).unwrap()
    }
}

#[test]
fn dup_event_fields() {
    let b = Buf::default();
    let c = tracing_subscriber::fmt().json().with_writer(b.clone()).finish();
    tracing::collect::with_default(c, || {
        tracing::info!(a = 1, a = 2, "hi");
    });
    println!("{}", b.s());
}

#[test]
fn dup_event_fields_flat() {
    let b = Buf::default();
    let c = tracing_subscriber::fmt()
        .json()
        .flatten_event(true)
        .with_writer(b.clone())
        .finish();
    tracing::collect::with_default(c, || {
        tracing::info!(message = "x", "hi");
    });
    println!("{}", b.s());
}

#[test]
fn bytes_and_wide() {
    let b = Buf::default();
    let c = tracing_subscriber::fmt().json().with_writer(b.clone()).finish();
    tracing::collect::with_default(c, || {
        let s = tracing::info_span!("s", by = &b"abc"[..], w = u128::MAX, r#type = 1, r#fn = ?2, nan = f64::NAN);
        let _e = s.enter();
        tracing::info!(by = &b"abc"[..], w = u128::MAX, r#type = 1, r#fn = ?2, nan = f64::NAN, "hi");
    });
    println!("{}", b.s());
}

#[test]
fn event_format_json_only() {
    let b = Buf::default();
    let c = tracing_subscriber::fmt()
        .event_format(tracing_subscriber::fmt::format::json())
        .with_writer(b.clone())
        .finish();
    tracing::collect::with_default(c, || {
        let s = tracing::info_span!("s", a = 1);
        let _e = s.enter();
        tracing::info!("hi");
    });
    println!("{}", b.s());
}

#[test]
fn reload_late() {
    let b = Buf::default();
    let layer = tracing_subscriber::fmt::subscriber::<tracing_subscriber::Registry>()
        .json()
        .with_writer(b.clone());
    let mut slot = Some(layer);
    let layer = slot.take().unwrap();
    let (l, h) = tracing_subscriber::reload::Subscriber::new(slot);
    let c = tracing_subscriber::registry().with(l).with(tracing_subscriber::fmt::subscriber().with_writer(std::io::sink));
    tracing::collect::with_default(c, || {
        let s = tracing::info_span!("s", a = 1);
        h.reload(Some(layer)).unwrap();
        let _e = s.enter();
        tracing::info!("hi");
    });
    println!("{}", b.s());
}

struct Chatty;
impl std::fmt::Debug for Chatty {
    fn fmt(&self, f: &mut std::fmt::Formatter<'_>) -> std::fmt::Result {
        tracing::info!("formatting chatty");
        f.write_str("chatty")
    }
}

#[test]
fn reentrant_record() {
    let b = Buf::default();
    let c = tracing_subscriber::fmt().json().with_writer(b.clone()).finish();
    let b2 = b.clone();
    let h = std::thread::spawn(move || {
        tracing::collect::with_default(c, || {
            let s = tracing::info_span!("s", a = tracing::field::Empty);
            let _e = s.enter();
            s.record("a", tracing::field::debug(Chatty));
            tracing::info!("after");
        });
    });
    std::thread::sleep(std::time::Duration::from_secs(2));
    println!("finished={} out={}", h.is_finished(), b2.s());
}
