//! C14 demonstration: the JSON event formatter (`fmt::format::json()` /
//! `fmt::format().json()`, both public) installed through the public
//! `event_format` / `fmt_fields` builder methods, i.e. combined with a field
//! formatter other than `JsonFields`.
//!
//! `SerializableSpan::serialize` (fmt/format/json.rs) takes whatever string the
//! configured `FormatFields` stored for the span and runs `serde_json::from_str`
//! on it. With the default field formatter the stored string is `id=7 ...`, so
//! in a debug build the event panics ("span 'request' had malformed fields! this
//! is a bug.") and no record is written; in a release build the span object is
//! `{"field_error":"expected value ...","name":"request"}` and every span field
//! is missing.
#![cfg(feature = "json")]

use std::{
    io,
    panic::{catch_unwind, AssertUnwindSafe},
    sync::{Arc, Mutex},
};
use tracing_subscriber::fmt::{self, MakeWriter};

#[derive(Clone, Default)]
struct Buf(Arc<Mutex<Vec<u8>>>);

impl io::Write for Buf {
    fn write(&mut self, b: &[u8]) -> io::Result<usize> {
        self.0.lock().unwrap().extend_from_slice(b);
        Ok(b.len())
    }
    fn flush(&mut self) -> io::Result<()> {
        Ok(())
    }
}

impl<'a> MakeWriter<'a> for Buf {
    type Writer = Buf;
    fn make_writer(&'a self) -> Buf {
        self.clone()
    }
}

impl Buf {
    fn text(&self) -> String {
        String::from_utf8(self.0.lock().unwrap().clone()).unwrap()
    }
}

fn panic_message(p: Box<dyn std::any::Any + Send>) -> String {
    p.downcast_ref::<String>()
        .cloned()
        .or_else(|| p.downcast_ref::<&str>().map(|s| s.to_string()))
        .unwrap_or_else(|| "<non-string panic>".into())
}

fn check(what: &str, out: &str, outcome: std::thread::Result<()>) {
    if let Err(p) = outcome {
        panic!(
            "C14 violated, clause \"every record is a single line that parses as one JSON object\" \
             ({}): the event inside a span with fields panicked instead of being written.\n  \
             panic: {}\n  output: {:?}",
            what,
            panic_message(p),
            out
        );
    }
    let lines: Vec<&str> = out.lines().collect();
    assert_eq!(lines.len(), 1, "C14 ({}): expected exactly one line, got {:?}", what, out);
    let v: serde_json::Value = serde_json::from_str(lines[0])
        .unwrap_or_else(|e| panic!("C14 ({}): not a JSON object: {}\n  {}", what, e, lines[0]));
    assert_eq!(
        v["span"]["id"], 7,
        "C14 violated, clause \"each span field appears with a value equal to what was recorded\" \
         ({}): {}",
        what, lines[0]
    );
    assert_eq!(
        v["spans"][0]["late"], "x",
        "C14 violated, clause \"including fields recorded after the span was created\" ({}): {}",
        what, lines[0]
    );
}

fn emit() -> std::thread::Result<()> {
    let span = tracing::info_span!("request", id = 7, late = tracing::field::Empty);
    span.record("late", "x");
    let _entered = span.enter();
    catch_unwind(AssertUnwindSafe(|| {
        tracing::info!(answer = 42, "inside");
    }))
}

#[test]
fn event_format_json_on_the_default_builder() {
    let buf = Buf::default();
    let collector = tracing_subscriber::fmt()
        .event_format(fmt::format::json())
        .with_ansi(false)
        .with_writer(buf.clone())
        .finish();
    let outcome = tracing::collect::with_default(collector, emit);
    check("fmt().event_format(format::json())", &buf.text(), outcome);
}

#[test]
fn json_builder_followed_by_fmt_fields() {
    let buf = Buf::default();
    let collector = tracing_subscriber::fmt()
        .json()
        .flatten_event(true)
        .fmt_fields(fmt::format::DefaultFields::new())
        .with_ansi(false)
        .with_writer(buf.clone())
        .finish();
    let outcome = tracing::collect::with_default(collector, emit);
    check(
        "fmt().json().flatten_event(true).fmt_fields(DefaultFields::new())",
        &buf.text(),
        outcome,
    );
}
