//! C14 demonstration: a span that was created before the JSON subscriber was
//! put in place (here: the output format is switched from text to JSON at
//! runtime through `reload::Handle`) makes every later record inside that span
//! disappear: `SerializableSpan::serialize` (fmt/format/json.rs) does
//! `ext.get::<FormattedFields<N>>().expect("Unable to find FormattedFields in
//! extensions; this is a bug")`, but that extension is only created by this
//! subscriber's own `on_new_span` / `on_record`. The text formatters handle the
//! same history with `if let Some(fields) = ...`.
#![cfg(feature = "json")]

use std::{
    io,
    panic::{catch_unwind, AssertUnwindSafe},
    sync::{Arc, Mutex},
};
use tracing_subscriber::{fmt::MakeWriter, prelude::*, reload, Registry};

#[derive(Clone, Default)]
struct Buf(Arc<Mutex<Vec<u8>>>);

impl io::Write for Buf {
    fn write(&mut self, b: &[u8]) -> io::Result<usize> {
        self.0.lock().unwrap().extend_from_slice(b);
        Ok(b.len())
    }
    fn flush(&mut self) -> io::Result<()> {
        Ok(())
    }
}

impl<'a> MakeWriter<'a> for Buf {
    type Writer = Buf;
    fn make_writer(&'a self) -> Buf {
        self.clone()
    }
}

impl Buf {
    fn text(&self) -> String {
        String::from_utf8(self.0.lock().unwrap().clone()).unwrap()
    }
}

type BoxedSubscriber = Box<dyn tracing_subscriber::Subscribe<Registry> + Send + Sync>;

fn panic_message(p: Box<dyn std::any::Any + Send>) -> String {
    p.downcast_ref::<String>()
        .cloned()
        .or_else(|| p.downcast_ref::<&str>().map(|s| s.to_string()))
        .unwrap_or_else(|| "<non-string panic>".into())
}

#[test]
fn span_created_before_the_switch_to_json() {
    let text_out = Buf::default();
    let json_out = Buf::default();

    let text: BoxedSubscriber = Box::new(
        tracing_subscriber::fmt::subscriber()
            .with_ansi(false)
            .with_writer(text_out.clone()),
    );
    let (subscriber, handle) = reload::Subscriber::new(text);
    let collector = tracing_subscriber::registry().with(subscriber);

    let outcome = tracing::collect::with_default(collector, || {
        // history: the span is created (with a field) while the text format is active ...
        let span = tracing::info_span!("request", id = 7);
        let _entered = span.enter();
        tracing::info!("as text");

        // ... then the operator switches the output to JSON ...
        let json: BoxedSubscriber = Box::new(
            tracing_subscriber::fmt::subscriber()
                .json()
                .with_writer(json_out.clone()),
        );
        handle.reload(json).expect("reload");

        // ... and the next record is emitted inside the still-open span.
        catch_unwind(AssertUnwindSafe(|| {
            tracing::info!(answer = 42, "as json");
        }))
    });

    assert!(text_out.text().contains("as text"), "sanity: the text subscriber worked");

    let out = json_out.text();
    if let Err(p) = outcome {
        panic!(
            "C14 violated, clause \"every record is a single line that parses as one JSON object\" \
             quantified over \"every history of span creation\": emitting an event inside a span \
             that predates the JSON subscriber panicked instead of writing a record.\n  \
             panic: {}\n  JSON output so far: {:?}",
            panic_message(p),
            out
        );
    }

    let lines: Vec<&str> = out.lines().collect();
    assert_eq!(lines.len(), 1, "C14: expected exactly one JSON line, got {:?}", out);
    let v: serde_json::Value = serde_json::from_str(lines[0])
        .unwrap_or_else(|e| panic!("C14: line is not a JSON object: {}\n  {}", e, lines[0]));
    assert_eq!(v["fields"]["answer"], 42, "C14: event field missing: {}", lines[0]);
    assert_eq!(
        v["spans"][0]["name"], "request",
        "C14: span list does not name the span in scope: {}",
        lines[0]
    );
}

/// Same defect without `Box<dyn Subscribe>`: an `Option<fmt::Subscriber>` that
/// is `None` at first and is reloaded to `Some(json)`; another subscriber keeps
/// the span enabled in the meantime.
#[test]
fn optional_json_subscriber_enabled_later() {
    let json_out = Buf::default();
    let json = tracing_subscriber::fmt::subscriber::<Registry>()
        .json()
        .with_writer(json_out.clone());

    let mut slot = Some(json);
    let json = slot.take().unwrap();
    let (optional, handle) = reload::Subscriber::new(slot);

    let always_on = tracing_subscriber::fmt::subscriber().with_writer(io::sink);
    let collector = tracing_subscriber::registry().with(optional).with(always_on);

    let outcome = tracing::collect::with_default(collector, || {
        let span = tracing::info_span!("request", id = 7);
        let _entered = span.enter();
        handle.reload(Some(json)).expect("reload");
        catch_unwind(AssertUnwindSafe(|| {
            tracing::info!(answer = 42, "as json");
        }))
    });

    let out = json_out.text();
    if let Err(p) = outcome {
        panic!(
            "C14 violated, clause \"every record is a single line that parses as one JSON object\" \
             quantified over \"every history of span creation\": the JSON subscriber was enabled \
             after the span was created and the event inside it panicked.\n  panic: {}\n  \
             JSON output so far: {:?}",
            panic_message(p),
            out
        );
    }
    assert_eq!(out.lines().count(), 1, "C14: expected exactly one JSON line, got {:?}", out);
}
