//! C14 demonstration: an event whose field set contains the same field name
//! twice is written as a JSON object with a repeated key.
//!
//! The macros accept a repeated name (`info!(a = 1, a = 2)`), and an explicit
//! `message = ...` field next to the format-string message, and hand both
//! values to the collector. `tracing_serde::SerdeMapVisitor` -- used by the
//! JSON formatter both for the nested `"fields"` object and for
//! `flatten_event(true)` -- calls `serialize_entry` once per recorded value
//! and never looks at the keys it has already written.
#![cfg(feature = "json")]

use serde::de::{self, Deserialize, Deserializer, MapAccess, SeqAccess, Visitor};
use std::{
    collections::BTreeSet,
    fmt, io,
    sync::{Arc, Mutex},
};
use tracing_subscriber::fmt::MakeWriter;

#[derive(Clone, Default)]
struct Buf(Arc<Mutex<Vec<u8>>>);

impl io::Write for Buf {
    fn write(&mut self, b: &[u8]) -> io::Result<usize> {
        self.0.lock().unwrap().extend_from_slice(b);
        Ok(b.len())
    }
    fn flush(&mut self) -> io::Result<()> {
        Ok(())
    }
}

impl<'a> MakeWriter<'a> for Buf {
    type Writer = Buf;
    fn make_writer(&'a self) -> Buf {
        self.clone()
    }
}

impl Buf {
    fn text(&self) -> String {
        String::from_utf8(self.0.lock().unwrap().clone()).unwrap()
    }
}

/// A JSON value that refuses to deserialize when any object in it repeats a key.
struct UniqueKeys;

impl<'de> Deserialize<'de> for UniqueKeys {
    fn deserialize<D: Deserializer<'de>>(d: D) -> Result<Self, D::Error> {
        struct V;
        impl<'de> Visitor<'de> for V {
            type Value = UniqueKeys;
            fn expecting(&self, f: &mut fmt::Formatter<'_>) -> fmt::Result {
                f.write_str("any JSON value")
            }
            fn visit_bool<E>(self, _: bool) -> Result<UniqueKeys, E> {
                Ok(UniqueKeys)
            }
            fn visit_i64<E>(self, _: i64) -> Result<UniqueKeys, E> {
                Ok(UniqueKeys)
            }
            fn visit_u64<E>(self, _: u64) -> Result<UniqueKeys, E> {
                Ok(UniqueKeys)
            }
            fn visit_f64<E>(self, _: f64) -> Result<UniqueKeys, E> {
                Ok(UniqueKeys)
            }
            fn visit_str<E>(self, _: &str) -> Result<UniqueKeys, E> {
                Ok(UniqueKeys)
            }
            fn visit_unit<E>(self) -> Result<UniqueKeys, E> {
                Ok(UniqueKeys)
            }
            fn visit_seq<A: SeqAccess<'de>>(self, mut seq: A) -> Result<UniqueKeys, A::Error> {
                while seq.next_element::<UniqueKeys>()?.is_some() {}
                Ok(UniqueKeys)
            }
            fn visit_map<A: MapAccess<'de>>(self, mut map: A) -> Result<UniqueKeys, A::Error> {
                let mut seen = BTreeSet::new();
                while let Some(key) = map.next_key::<String>()? {
                    if !seen.insert(key.clone()) {
                        return Err(de::Error::custom(format!(
                            "key {:?} appears more than once in one object",
                            key
                        )));
                    }
                    map.next_value::<UniqueKeys>()?;
                }
                Ok(UniqueKeys)
            }
        }
        d.deserialize_any(V)
    }
}

fn assert_one_object_with_unique_keys(what: &str, out: &str) {
    let lines: Vec<&str> = out.lines().collect();
    assert_eq!(lines.len(), 1, "{}: expected exactly one line, got {:?}", what, out);
    // it is syntactically JSON ...
    serde_json::from_str::<serde_json::Value>(lines[0])
        .unwrap_or_else(|e| panic!("{}: line is not JSON at all: {}\n  {}", what, e, lines[0]));
    // ... but is it an object with unique keys?
    if let Err(e) = serde_json::from_str::<UniqueKeys>(lines[0]) {
        panic!(
            "C14 violated, clause \"every record ... parses as one JSON object with unique keys\" \
             ({}): {}\n  line: {}",
            what, e, lines[0]
        );
    }
}

#[test]
fn repeated_field_name_in_nested_fields_object() {
    let buf = Buf::default();
    let collector = tracing_subscriber::fmt()
        .json()
        .with_writer(buf.clone())
        .finish();
    tracing::collect::with_default(collector, || {
        // neither name is one of the formatter's reserved keys
        tracing::info!(attempt = 1, attempt = 2, "retrying");
    });
    assert_one_object_with_unique_keys("default JSON options, `attempt` given twice", &buf.text());
}

#[test]
fn explicit_message_field_next_to_format_string_flattened() {
    let buf = Buf::default();
    let collector = tracing_subscriber::fmt()
        .json()
        .flatten_event(true)
        .with_writer(buf.clone())
        .finish();
    tracing::collect::with_default(collector, || {
        // `message` is not a key the formatter itself writes; both values reach
        // the formatter under the field name `message`
        tracing::info!(message = "explicit", "from the format string");
    });
    assert_one_object_with_unique_keys(
        "flatten_event(true), explicit `message` field plus format string",
        &buf.text(),
    );
}

#[test]
fn repeated_field_name_without_span_entries() {
    let buf = Buf::default();
    let collector = tracing_subscriber::fmt()
        .json()
        .flatten_event(true)
        .with_current_span(false)
        .with_span_list(false)
        .with_writer(buf.clone())
        .finish();
    tracing::collect::with_default(collector, || {
        let user = "ferris";
        tracing::warn!(user, user = "corro", "two users");
    });
    assert_one_object_with_unique_keys(
        "flatten_event(true), span entries off, `user` given twice",
        &buf.text(),
    );
}
