//! C14 demonstration: the `spans` list of a JSON record is not the scope of the
//! event (root to leaf) when the event's parent is not the thread's current span.
#![cfg(feature = "json")]
use std::io;
use std::sync::{Arc, Mutex};
use tracing::collect::with_default;
use tracing_subscriber::fmt::{format::FmtSpan, MakeWriter};

#[derive(Clone, Default)]
struct Buf(Arc<Mutex<Vec<u8>>>);
impl io::Write for Buf {
    fn write(&mut self, b: &[u8]) -> io::Result<usize> {
        self.0.lock().unwrap().extend_from_slice(b);
        Ok(b.len())
    }
    fn flush(&mut self) -> io::Result<()> {
        Ok(())
    }
}
impl<'a> MakeWriter<'a> for Buf {
    type Writer = Buf;
    fn make_writer(&'a self) -> Buf {
        self.clone()
    }
}
impl Buf {
    fn lines(&self) -> Vec<serde_json::Value> {
        let s = String::from_utf8(self.0.lock().unwrap().clone()).unwrap();
        s.lines()
            .map(|l| serde_json::from_str(l).expect("every line is a JSON object"))
            .collect()
    }
}

fn names(v: &serde_json::Value) -> Vec<String> {
    v.as_array()
        .expect("`spans` is an array")
        .iter()
        .map(|s| s["name"].as_str().unwrap().to_owned())
        .collect()
}

/// An event with an explicit parent, emitted while an unrelated span is entered.
#[test]
fn span_list_of_event_with_explicit_parent() {
    let buf = Buf::default();
    let collector = tracing_subscriber::fmt()
        .json()
        .with_current_span(true)
        .with_span_list(true)
        .with_writer(buf.clone())
        .finish();
    with_default(collector, || {
        let a = tracing::info_span!("a");
        let b = tracing::info_span!(parent: &a, "b");
        let unrelated = tracing::info_span!("unrelated");
        let _e = unrelated.enter();
        tracing::info!(parent: &b, "hello");
    });
    let lines = buf.lines();
    assert_eq!(lines.len(), 1);
    let rec = &lines[0];
    assert_eq!(rec["span"]["name"], "b", "the event's span is its explicit parent");
    assert_eq!(
        names(&rec["spans"]),
        vec!["a".to_owned(), "b".to_owned()],
        "C14 clause violated: `the span list names the spans in scope from root to leaf` \
         -- the event's scope is a > b (its explicit parent chain), record was: {}",
        rec
    );
}

/// The synthesized span life-cycle records (`with_span_events`) are events whose
/// explicit parent is the span they are about; that span is not entered when
/// `new` / `close` are emitted.
#[test]
fn span_list_of_span_lifecycle_records() {
    let buf = Buf::default();
    let collector = tracing_subscriber::fmt()
        .json()
        .with_span_events(FmtSpan::NEW | FmtSpan::CLOSE)
        .with_writer(buf.clone())
        .finish();
    with_default(collector, || {
        let a = tracing::info_span!("a");
        let _e = a.enter();
        let b = tracing::info_span!("b");
        drop(b);
    });
    for rec in buf.lines() {
        let leaf = rec["span"]["name"].as_str().unwrap().to_owned();
        let list = names(&rec["spans"]);
        assert_eq!(
            list.last(),
            Some(&leaf),
            "C14 clause violated: `the span list names the spans in scope from root to leaf` \
             -- the leaf of `spans` must be the record's own `span`; record was: {}",
            rec
        );
    }
}
