//! AUDIT C02, extra demonstration (over the limit of three).
//!
//! Clause: "set_global_default succeeds exactly once".
//!
//! `SubscriberInitExt::try_init` (and everything built on it:
//! `fmt().try_init()`, `fmt::try_init()`, `init()`) installs the global default
//! FIRST and only then tries to install the `log` bridge. When a `log` logger
//! is already present, the attempt reports failure although it did take
//! effect: the process then has a global default that no attempt ever
//! reported as successfully installed, and every later attempt fails too.
#![cfg(feature = "tracing-log")]
use tracing_subscriber::{registry::Registry, util::SubscriberInitExt};

struct NopLogger;
impl log::Log for NopLogger {
    fn enabled(&self, _: &log::Metadata<'_>) -> bool {
        false
    }
    fn log(&self, _: &log::Record<'_>) {}
    fn flush(&self) {}
}
static NOP: NopLogger = NopLogger;

#[test]
fn failed_try_init_has_nevertheless_installed_the_global_default() {
    log::set_logger(&NOP).unwrap();

    let first = tracing_subscriber::registry().try_init();
    let installed = tracing::dispatch::get_default(|d| d.is::<Registry>());
    let second = tracing_subscriber::registry().try_init();

    let successes = [first.is_ok(), second.is_ok()]
        .iter()
        .filter(|ok| **ok)
        .count();
    assert!(
        !(installed && successes == 0),
        "C02 violated (clause: 'set_global_default succeeds exactly once'): a global default IS \
         installed, yet none of the attempts reported success (first = {:?}, second = {:?})",
        first.map_err(|e| e.to_string()),
        second.map_err(|e| e.to_string()),
    );
}
