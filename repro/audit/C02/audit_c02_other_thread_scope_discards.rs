//! AUDIT C02 demonstration 1.
//!
//! Clause: "if the thread has no live scope, [the emission goes] to the
//! process-wide default when one has been set" and "[scopes] never affect
//! another thread".
//!
//! A thread that has NO scoped default emits an event from inside a
//! `dispatch::get_default` closure (equivalently: from inside a callback of the
//! global default collector, e.g. a field's `Debug` impl that logs). The global
//! default has been set. While no thread in the process holds a scope, the
//! emission reaches the global default. As soon as ANOTHER thread holds a
//! `set_default` scope, the very same emission on the scope-less thread is
//! discarded (it is handed to `Dispatch::none()`).
use std::sync::{
    atomic::{AtomicUsize, Ordering},
    mpsc, Arc,
};
use tracing_core::{
    callsite::Callsite,
    collect::{Collect, Interest},
    dispatch::{self, Dispatch},
    metadata,
    metadata::{Kind, Level, Metadata},
    span, Event,
};

struct Counting(Arc<AtomicUsize>);

impl Collect for Counting {
    fn enabled(&self, _: &Metadata<'_>) -> bool {
        true
    }
    fn new_span(&self, _: &span::Attributes<'_>) -> span::Id {
        span::Id::from_u64(1)
    }
    fn record(&self, _: &span::Id, _: &span::Record<'_>) {}
    fn record_follows_from(&self, _: &span::Id, _: &span::Id) {}
    fn event(&self, _: &Event<'_>) {
        self.0.fetch_add(1, Ordering::SeqCst);
    }
    fn enter(&self, _: &span::Id) {}
    fn exit(&self, _: &span::Id) {}
    fn current_span(&self) -> span::Current {
        span::Current::unknown()
    }
}

struct TestCallsite;
static CALLSITE: TestCallsite = TestCallsite;
static META: Metadata<'static> = metadata! {
    name: "audit_event",
    target: "audit",
    level: Level::INFO,
    fields: &[],
    callsite: &CALLSITE,
    kind: Kind::EVENT
};
impl Callsite for TestCallsite {
    fn set_interest(&self, _: Interest) {}
    fn metadata(&self) -> &Metadata<'_> {
        &META
    }
}

fn emit() {
    Event::dispatch(&META, &META.fields().value_set(&[]));
}

/// An emission made while the thread is already looking at its default
/// dispatcher (what happens whenever collector code, a field's `Debug` impl,
/// a `MakeWriter`, ... emits).
fn emit_nested() {
    dispatch::get_default(|_current| emit());
}

#[test]
fn scope_on_another_thread_discards_emissions_of_a_scopeless_thread() {
    let global_seen = Arc::new(AtomicUsize::new(0));
    dispatch::set_global_default(Dispatch::new(Counting(global_seen.clone())))
        .expect("first set_global_default must succeed");

    // This (main) thread never opens a scope.
    emit();
    assert_eq!(global_seen.load(Ordering::SeqCst), 1, "plain emission");
    emit_nested();
    assert_eq!(
        global_seen.load(Ordering::SeqCst),
        2,
        "nested emission with no scope anywhere in the process reaches the global default"
    );

    // Another thread opens a scope and keeps it open.
    let other_seen = Arc::new(AtomicUsize::new(0));
    let (opened_tx, opened_rx) = mpsc::channel::<()>();
    let (close_tx, close_rx) = mpsc::channel::<()>();
    let other = {
        let other_seen = other_seen.clone();
        std::thread::spawn(move || {
            let _guard = dispatch::set_default(&Dispatch::new(Counting(other_seen)));
            opened_tx.send(()).unwrap();
            close_rx.recv().unwrap();
        })
    };
    opened_rx.recv().unwrap();

    // Same emissions, same thread, still no scope on this thread.
    emit();
    assert_eq!(global_seen.load(Ordering::SeqCst), 3, "plain emission");
    emit_nested();
    let seen = global_seen.load(Ordering::SeqCst);

    close_tx.send(()).unwrap();
    other.join().unwrap();

    assert_eq!(
        other_seen.load(Ordering::SeqCst),
        0,
        "the other thread's collector must not see anything"
    );
    assert_eq!(
        seen, 4,
        "C02 violated (clauses: 'no live scope => process-wide default', 'scopes never affect \
         another thread'): this thread has no scope and a global default is set, but while \
         ANOTHER thread held a set_default scope the emission was discarded instead of being \
         handed to the global default"
    );
}
