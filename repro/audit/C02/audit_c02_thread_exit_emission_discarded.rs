//! AUDIT C02 demonstration 3.
//!
//! Clause: "if the thread has no live scope, [the emission goes] to the
//! process-wide default when one has been set" and "[scopes] never affect
//! another thread".
//!
//! A worker thread that never opens a scope emits once while it runs and once
//! while it exits (from the destructor of one of its thread-local values; this
//! is how per-thread caches, runtimes' worker contexts etc. log their
//! shutdown). A global default is set before the thread starts.
//!
//! * While no thread of the process holds a scope, both emissions reach the
//!   global default.
//! * While ANOTHER thread holds a scope, the emission made during thread exit
//!   is discarded: `get_default_slow` falls back to `Dispatch::none()` - not to
//!   the global default - when the thread-local `CURRENT_STATE` has already
//!   been destroyed (`.unwrap_or_else(|_| f(&Dispatch::none()))`).
use std::sync::{
    atomic::{AtomicUsize, Ordering},
    mpsc, Arc,
};
use tracing_core::{
    callsite::Callsite,
    collect::{Collect, Interest},
    dispatch::{self, Dispatch},
    metadata,
    metadata::{Kind, Level, Metadata},
    span, Event,
};

struct Counting(Arc<AtomicUsize>);

impl Collect for Counting {
    fn enabled(&self, _: &Metadata<'_>) -> bool {
        true
    }
    fn new_span(&self, _: &span::Attributes<'_>) -> span::Id {
        span::Id::from_u64(1)
    }
    fn record(&self, _: &span::Id, _: &span::Record<'_>) {}
    fn record_follows_from(&self, _: &span::Id, _: &span::Id) {}
    fn event(&self, _: &Event<'_>) {
        self.0.fetch_add(1, Ordering::SeqCst);
    }
    fn enter(&self, _: &span::Id) {}
    fn exit(&self, _: &span::Id) {}
    fn current_span(&self) -> span::Current {
        span::Current::unknown()
    }
}

struct TestCallsite;
static CALLSITE: TestCallsite = TestCallsite;
static META: Metadata<'static> = metadata! {
    name: "audit_event",
    target: "audit",
    level: Level::INFO,
    fields: &[],
    callsite: &CALLSITE,
    kind: Kind::EVENT
};
impl Callsite for TestCallsite {
    fn set_interest(&self, _: Interest) {}
    fn metadata(&self) -> &Metadata<'_> {
        &META
    }
}

fn emit() {
    Event::dispatch(&META, &META.fields().value_set(&[]));
}

/// A per-thread value that reports when its thread goes away.
struct SaysGoodbye;
impl Drop for SaysGoodbye {
    fn drop(&mut self) {
        emit();
    }
}
thread_local! {
    static GOODBYE: SaysGoodbye = const { SaysGoodbye };
}

/// Runs a worker thread (which never opens a scope) to completion and returns
/// how many events the global default was handed because of it.
fn run_worker(global_seen: &Arc<AtomicUsize>) -> usize {
    let before = global_seen.load(Ordering::SeqCst);
    std::thread::spawn(|| {
        GOODBYE.with(|_| ()); // the thread-local value now exists
        emit(); // emission #1, while the thread runs
                // emission #2 happens when the thread exits
    })
    .join()
    .unwrap();
    global_seen.load(Ordering::SeqCst) - before
}

#[test]
fn emission_during_thread_exit_is_discarded_while_another_thread_holds_a_scope() {
    let global_seen = Arc::new(AtomicUsize::new(0));
    dispatch::set_global_default(Dispatch::new(Counting(global_seen.clone())))
        .expect("first set_global_default must succeed");

    assert_eq!(
        run_worker(&global_seen),
        2,
        "with no scope anywhere both emissions of the worker reach the global default"
    );

    // Another thread opens a scope and keeps it open.
    let other_seen = Arc::new(AtomicUsize::new(0));
    let (opened_tx, opened_rx) = mpsc::channel::<()>();
    let (close_tx, close_rx) = mpsc::channel::<()>();
    let other = {
        let other_seen = other_seen.clone();
        std::thread::spawn(move || {
            let _guard = dispatch::set_default(&Dispatch::new(Counting(other_seen)));
            opened_tx.send(()).unwrap();
            close_rx.recv().unwrap();
        })
    };
    opened_rx.recv().unwrap();

    let seen = run_worker(&global_seen);

    close_tx.send(()).unwrap();
    other.join().unwrap();
    assert_eq!(other_seen.load(Ordering::SeqCst), 0);

    assert_eq!(
        seen, 2,
        "C02 violated (clauses: 'no live scope => process-wide default', 'scopes never affect \
         another thread'): a scope-less worker thread emitted twice (once while running, once \
         while exiting) after the global default was set, but while ANOTHER thread held a \
         set_default scope the emission made during thread exit was discarded"
    );
}
