//! AUDIT C02 demonstration 2.
//!
//! Clause: "an emission is handed to the collector installed by the innermost
//! still-live set_default/with_default scope of that thread", "scopes nest",
//! and "[scopes] never affect another thread".
//!
//! The global default collector opens a properly nested `with_default` scope
//! inside its `event` callback (the usual way for a collector to route its own
//! internal diagnostics to a different collector) and emits inside that scope.
//! The emitting thread never holds any other scope.
//!
//! * While no other thread holds a scope this works: the inner emission is
//!   handed to the collector of the innermost scope.
//! * As soon as ANOTHER thread holds a `set_default` scope, opening the scope
//!   panics with `BorrowMutError` ("already borrowed"): `get_default_slow`
//!   keeps `state.default.borrow()` alive across the callback and
//!   `State::set_default` does `state.default.replace(..)`.
use std::{
    panic::{catch_unwind, AssertUnwindSafe},
    sync::{
        atomic::{AtomicUsize, Ordering},
        mpsc, Arc,
    },
};
use tracing_core::{
    callsite::Callsite,
    collect::{Collect, Interest},
    dispatch::{self, Dispatch},
    metadata,
    metadata::{Kind, Level, Metadata},
    span, Event,
};

struct TestCallsite(&'static Metadata<'static>);
impl Callsite for TestCallsite {
    fn set_interest(&self, _: Interest) {}
    fn metadata(&self) -> &Metadata<'_> {
        self.0
    }
}
static OUTER_CS: TestCallsite = TestCallsite(&OUTER);
static OUTER: Metadata<'static> = metadata! {
    name: "outer",
    target: "audit",
    level: Level::INFO,
    fields: &[],
    callsite: &OUTER_CS,
    kind: Kind::EVENT
};
static INNER_CS: TestCallsite = TestCallsite(&INNER);
static INNER: Metadata<'static> = metadata! {
    name: "inner",
    target: "audit",
    level: Level::INFO,
    fields: &[],
    callsite: &INNER_CS,
    kind: Kind::EVENT
};

/// Counts the events it is handed.
struct Counting(Arc<AtomicUsize>);

/// The global default: for every event it gets, it emits a diagnostic inside a
/// nested scope that installs `diagnostics`.
struct Global {
    diagnostics: Dispatch,
}

macro_rules! boring {
    () => {
        fn enabled(&self, _: &Metadata<'_>) -> bool {
            true
        }
        fn new_span(&self, _: &span::Attributes<'_>) -> span::Id {
            span::Id::from_u64(1)
        }
        fn record(&self, _: &span::Id, _: &span::Record<'_>) {}
        fn record_follows_from(&self, _: &span::Id, _: &span::Id) {}
        fn enter(&self, _: &span::Id) {}
        fn exit(&self, _: &span::Id) {}
        fn current_span(&self) -> span::Current {
            span::Current::unknown()
        }
    };
}

impl Collect for Counting {
    boring!();
    fn event(&self, _: &Event<'_>) {
        self.0.fetch_add(1, Ordering::SeqCst);
    }
}

impl Collect for Global {
    boring!();
    fn event(&self, _: &Event<'_>) {
        dispatch::with_default(&self.diagnostics, || {
            Event::dispatch(&INNER, &INNER.fields().value_set(&[]));
        });
    }
}

fn emit_outer() {
    Event::dispatch(&OUTER, &OUTER.fields().value_set(&[]));
}

#[test]
fn scope_on_another_thread_makes_a_nested_scope_panic() {
    let diagnostics_seen = Arc::new(AtomicUsize::new(0));
    let diagnostics = Dispatch::new(Counting(diagnostics_seen.clone()));
    dispatch::set_global_default(Dispatch::new(Global { diagnostics }))
        .expect("first set_global_default must succeed");

    // No scope anywhere: the nested scope opens, the inner emission is handed
    // to the innermost scope's collector, the scope closes again.
    emit_outer();
    assert_eq!(
        diagnostics_seen.load(Ordering::SeqCst),
        1,
        "inner emission goes to the innermost scope's collector"
    );

    // Another thread opens an unrelated scope and keeps it open.
    let (opened_tx, opened_rx) = mpsc::channel::<()>();
    let (close_tx, close_rx) = mpsc::channel::<()>();
    let other = std::thread::spawn(move || {
        let unrelated = Dispatch::new(Counting(Arc::new(AtomicUsize::new(0))));
        let _guard = dispatch::set_default(&unrelated);
        opened_tx.send(()).unwrap();
        close_rx.recv().unwrap();
    });
    opened_rx.recv().unwrap();

    // The very same emission on this thread, which still has no scope of its own.
    let result = catch_unwind(AssertUnwindSafe(emit_outer));

    close_tx.send(()).unwrap();
    other.join().unwrap();

    let panic_msg = result.as_ref().err().map(|p| {
        p.downcast_ref::<String>()
            .cloned()
            .or_else(|| p.downcast_ref::<&str>().map(|s| s.to_string()))
            .unwrap_or_else(|| "<non-string panic>".into())
    });
    assert!(
        result.is_ok() && diagnostics_seen.load(Ordering::SeqCst) == 2,
        "C02 violated (clauses: 'innermost still-live scope', 'scopes nest', 'never affect \
         another thread'): while ANOTHER thread held a set_default scope, opening a nested \
         with_default scope on this thread did not install its collector; panic = {:?}, \
         inner emissions seen by the innermost scope's collector = {} (expected 2)",
        panic_msg,
        diagnostics_seen.load(Ordering::SeqCst),
    );
}
