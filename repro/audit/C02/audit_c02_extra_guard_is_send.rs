//! AUDIT C02, extra demonstration (over the limit of three; listed under
//! "unconfirmed" in findings.json because closing a scope on a thread other
//! than the one that opened it is arguably not a "properly nested" history).
//!
//! Clause: "[scopes] never affect another thread".
//!
//! `DefaultGuard` is `Send` (it is just `Option<Dispatch>`), so safe code can
//! move it - e.g. inside a future that holds it across an `.await` on a
//! work-stealing runtime - to another thread and drop it there. Dropping it
//! there overwrites THAT thread's current scoped default with the prior default
//! of the opening thread (and leaves the opening thread's dispatcher in its
//! thread-local slot, where it is used again as soon as the process-wide scope
//! count becomes non-zero).
use std::sync::{
    atomic::{AtomicUsize, Ordering},
    Arc,
};
use tracing_core::{
    callsite::Callsite,
    collect::{Collect, Interest},
    dispatch::{self, Dispatch},
    metadata,
    metadata::{Kind, Level, Metadata},
    span, Event,
};

struct Counting(Arc<AtomicUsize>);

impl Collect for Counting {
    fn enabled(&self, _: &Metadata<'_>) -> bool {
        true
    }
    fn new_span(&self, _: &span::Attributes<'_>) -> span::Id {
        span::Id::from_u64(1)
    }
    fn record(&self, _: &span::Id, _: &span::Record<'_>) {}
    fn record_follows_from(&self, _: &span::Id, _: &span::Id) {}
    fn event(&self, _: &Event<'_>) {
        self.0.fetch_add(1, Ordering::SeqCst);
    }
    fn enter(&self, _: &span::Id) {}
    fn exit(&self, _: &span::Id) {}
    fn current_span(&self) -> span::Current {
        span::Current::unknown()
    }
}

struct TestCallsite;
static CALLSITE: TestCallsite = TestCallsite;
static META: Metadata<'static> = metadata! {
    name: "audit_event",
    target: "audit",
    level: Level::INFO,
    fields: &[],
    callsite: &CALLSITE,
    kind: Kind::EVENT
};
impl Callsite for TestCallsite {
    fn set_interest(&self, _: Interest) {}
    fn metadata(&self) -> &Metadata<'_> {
        &META
    }
}

fn emit() {
    Event::dispatch(&META, &META.fields().value_set(&[]));
}

#[test]
fn guard_dropped_on_another_thread_clobbers_that_threads_scope() {
    let a_seen = Arc::new(AtomicUsize::new(0));
    let b_seen = Arc::new(AtomicUsize::new(0));

    // Thread A (this thread) opens a scope.
    let guard_a = dispatch::set_default(&Dispatch::new(Counting(a_seen.clone())));

    // Thread B has its own live scope and is handed A's guard.
    let b_seen2 = b_seen.clone();
    std::thread::spawn(move || {
        let _guard_b = dispatch::set_default(&Dispatch::new(Counting(b_seen2)));
        emit(); // -> B's collector
        drop(guard_a); // A's scope is closed ... on thread B
        emit(); // B's own scope is still live, so this must go to B's collector
    })
    .join()
    .unwrap();

    // A's scope has been closed (its guard was dropped), so this must NOT be
    // handed to A's collector any more.
    emit();

    assert_eq!(
        (b_seen.load(Ordering::SeqCst), a_seen.load(Ordering::SeqCst)),
        (2, 0),
        "C02 violated (clause: 'scopes never affect another thread'): (events seen by thread B's \
         scope, events seen by thread A's closed scope) - dropping A's DefaultGuard on thread B \
         replaced B's live scoped default, so B's second emission was not handed to B's scope"
    );
}
