//! C07 demonstration: a *global* filter layer nested inside a
//! per-layer-filtered subtree,
//!
//!     Filtered { filter: target == "a", inner: p.and_then(LevelFilter::ERROR) }
//!
//! 1. `Layered::pick_interest` of the nested `Layered` sees the global
//!    filter's `never` and calls `FilterState::take_interest()`, assuming the
//!    `never` will travel up to the root. It does not: the surrounding
//!    `Filtered::register_callsite` ignores the inner interest. What *was*
//!    thrown away is the `never` that an unrelated per-layer-filtered layer
//!    `q` (registered just before) had contributed. The callsite ends up
//!    cached as `always`, `enabled` is never asked, and `q` receives an event
//!    its own filter rejects.
//! 2. The outcome flips when the two layers are added in the other order.
//! 3. Even alone in the stack, the nested global filter is only ever consulted
//!    from `Filtered::enabled`, i.e. never when the cached interest is
//!    `always`: `p` receives an event the global filter on top of it rejects.
#![cfg(feature = "registry")]

use std::sync::{
    atomic::{AtomicUsize, Ordering},
    Arc,
};
use tracing::{Collect, Event, Level};
use tracing_subscriber::{
    filter::{filter_fn, LevelFilter},
    prelude::*,
    registry::Registry,
    subscribe::{Context, Subscribe},
};

#[derive(Clone, Default)]
struct Count(Arc<AtomicUsize>);

impl Count {
    fn get(&self) -> usize {
        self.0.load(Ordering::SeqCst)
    }
}

impl<C: Collect> Subscribe<C> for Count {
    fn on_event(&self, _: &Event<'_>, _: Context<'_, C>) {
        self.0.fetch_add(1, Ordering::SeqCst);
    }
}

// One callsite for all stacks.
fn emit() {
    tracing::event!(target: "a", Level::INFO, "INFO event, target a");
}

/// `q.with_filter(ERROR)` receives an INFO event.
#[test]
fn a_other_layers_own_filter_is_bypassed() {
    let p = Count::default();
    let q = Count::default();
    let stack = Registry::default()
        .with(
            p.clone()
                .and_then(LevelFilter::ERROR) // a global filter layer: rejects INFO
                .with_filter(filter_fn(|m| m.target() == "a")), // accepts the event
        )
        .with(q.clone().with_filter(LevelFilter::ERROR)); // rejects the event
    tracing::collect::with_default(stack, emit);

    assert_eq!(
        q.get(),
        0,
        "C07 violated (\"a layer receives an event if and only if ... every per-layer filter \
         attached to that layer accepts it\"): q's only filter is LevelFilter::ERROR, yet q \
         received the INFO event -- its `never` was wiped by the global filter nested inside \
         the OTHER layer's filtered subtree"
    );
}

/// The same two layers, the other way round: different outcome for both.
#[test]
fn b_outcome_depends_on_layer_order() {
    let (p1, q1) = (Count::default(), Count::default());
    let q_above = Registry::default()
        .with(
            p1.clone()
                .and_then(LevelFilter::ERROR)
                .with_filter(filter_fn(|m| m.target() == "a")),
        )
        .with(q1.clone().with_filter(LevelFilter::ERROR));
    tracing::collect::with_default(q_above, emit);

    let (p2, q2) = (Count::default(), Count::default());
    let q_below = Registry::default()
        .with(q2.clone().with_filter(LevelFilter::ERROR))
        .with(
            p2.clone()
                .and_then(LevelFilter::ERROR)
                .with_filter(filter_fn(|m| m.target() == "a")),
        );
    tracing::collect::with_default(q_below, emit);

    assert_eq!(
        (p1.get(), q1.get()),
        (p2.get(), q2.get()),
        "C07 violated (\"the decision never depends on ... the order of layers\"): (p, q) \
         received the same INFO event (left) times with q added after the filtered subtree and \
         (right) times with q added before it"
    );
}

/// Alone in the stack: the nested global filter is not applied at all.
#[test]
fn c_nested_global_filter_is_skipped_when_interest_is_always() {
    let p = Count::default();
    let stack = Registry::default().with(
        p.clone()
            .and_then(LevelFilter::ERROR)
            .with_filter(filter_fn(|m| m.target() == "a")),
    );
    tracing::collect::with_default(stack, emit);
    assert_eq!(
        p.get(),
        0,
        "C07 violated (\"a layer receives an event if and only if every global filter in the \
         stack accepts it\"): the global filter layer LevelFilter::ERROR layered directly on top \
         of p rejects INFO, yet p received the INFO event"
    );
}
