//! C07 demonstration: an `Option::None` layer anywhere inside an `and_then`
//! tree makes the whole tree look "absent" to the per-subscriber-filter
//! detection (`Layered::downcast_raw` answers the `NoneLayerMarker` query for
//! any of its children), so a tree made of a *plain* layer and a `None` is
//! ignored when deciding whether the surrounding `Layered` consists of
//! per-layer-filtered layers only. The root then takes the combined interest
//! of the per-layer filters for the interest of the whole stack, and the
//! plain layer loses every event the *other* layer's filter rejects.
#![cfg(feature = "registry")]

use std::sync::{
    atomic::{AtomicUsize, Ordering},
    Arc,
};
use tracing::{Collect, Event, Level};
use tracing_subscriber::{
    filter::LevelFilter,
    prelude::*,
    registry::Registry,
    subscribe::{Context, Subscribe},
};

#[derive(Clone, Default)]
struct Count(Arc<AtomicUsize>);

impl Count {
    fn get(&self) -> usize {
        self.0.load(Ordering::SeqCst)
    }
}

impl<C: Collect> Subscribe<C> for Count {
    fn on_event(&self, _: &Event<'_>, _: Context<'_, C>) {
        self.0.fetch_add(1, Ordering::SeqCst);
    }
}

// One callsite for all stacks.
fn emit() {
    tracing::event!(Level::DEBUG, "a DEBUG event");
}

fn run(optional: Option<Count>) -> (usize, usize) {
    let plain = Count::default();
    let filtered = Count::default();
    let stack = Registry::default().with(
        plain
            .clone()
            .and_then(optional)
            .and_then(filtered.clone().with_filter(LevelFilter::WARN)),
    );
    tracing::collect::with_default(stack, emit);
    (plain.get(), filtered.get())
}

/// Reference: the optional layer is `Some`.
#[test]
fn a_reference_some() {
    let extra = Count::default();
    let (plain, filtered) = run(Some(extra.clone()));
    assert_eq!(filtered, 0, "the WARN-filtered layer must not see DEBUG");
    assert_eq!(extra.get(), 1, "the optional plain layer sees the event");
    assert_eq!(plain, 1, "reference: the plain layer sees the DEBUG event");
}

/// The optional layer is `None`: it should behave as if it were not there.
#[test]
fn b_none_layer_in_the_tree() {
    let (plain, filtered) = run(None);
    assert_eq!(filtered, 0, "the WARN-filtered layer must not see DEBUG");
    assert_eq!(
        plain, 1,
        "C07 violated (\"the decision never depends on the filters attached to other layers\"): \
         the plain layer has no filter of its own and the stack has no global filter, but with \
         an Option::None layer next to it in the and_then tree it no longer receives the DEBUG \
         event that only the OTHER layer's per-layer filter (WARN) rejects"
    );
}

/// Same through a `Vec` of boxed layers.
#[test]
fn c_none_layer_in_a_vec_element() {
    let plain = Count::default();
    let filtered = Count::default();
    let layers: Vec<Box<dyn Subscribe<Registry> + Send + Sync>> = vec![
        plain.clone().and_then(None::<Count>).boxed(),
        filtered.clone().with_filter(LevelFilter::WARN).boxed(),
    ];
    let stack = Registry::default().with(layers);
    tracing::collect::with_default(stack, emit);
    assert_eq!(filtered.get(), 0, "the WARN-filtered layer must not see DEBUG");
    assert_eq!(
        plain.get(),
        1,
        "C07 violated: Vec [plain.and_then(None), filtered(WARN)]: the plain layer lost the \
         DEBUG event because of the other element's per-layer filter"
    );
}
