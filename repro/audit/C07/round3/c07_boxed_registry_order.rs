//! C07 demonstration: with a `Box<Registry>` (or `Arc<Registry>`) at the root
//! of the stack, a *plain* (unfiltered) layer stops receiving events as soon
//! as a per-layer-filtered layer whose filter rejects them is added *above*
//! it -- while the very same two layers in the opposite order behave
//! correctly, and the same stack over an unboxed `Registry` behaves correctly
//! in both orders.
#![cfg(feature = "registry")]

use std::sync::{
    atomic::{AtomicUsize, Ordering},
    Arc,
};
use tracing::{Collect, Event, Level};
use tracing_subscriber::{
    filter::LevelFilter,
    prelude::*,
    registry::Registry,
    subscribe::{Context, Subscribe},
};

#[derive(Clone, Default)]
struct Count(Arc<AtomicUsize>);

impl Count {
    fn get(&self) -> usize {
        self.0.load(Ordering::SeqCst)
    }
}

impl<C: Collect> Subscribe<C> for Count {
    fn on_event(&self, _: &Event<'_>, _: Context<'_, C>) {
        self.0.fetch_add(1, Ordering::SeqCst);
    }
}

// One function == one callsite, shared by every stack below, so the only
// thing that differs between the runs is the shape of the stack.
fn emit() {
    tracing::event!(Level::DEBUG, "a debug event: no global filter, the plain layer has no filter");
}

/// Reference: plain `Registry` root, plain layer below, filtered layer above.
#[test]
fn a_reference_unboxed_registry() {
    let plain = Count::default();
    let filtered = Count::default();
    let stack = Registry::default()
        .with(plain.clone())
        .with(filtered.clone().with_filter(LevelFilter::WARN));
    tracing::collect::with_default(stack, emit);
    assert_eq!(filtered.get(), 0, "filtered layer (WARN) must not see DEBUG");
    assert_eq!(
        plain.get(),
        1,
        "reference stack: the plain layer has no filter and there is no global filter"
    );
}

/// Reference: boxed root, filtered layer *below* the plain one.
#[test]
fn b_reference_boxed_registry_filtered_below() {
    let plain = Count::default();
    let filtered = Count::default();
    let stack = Box::new(Registry::default())
        .with(filtered.clone().with_filter(LevelFilter::WARN))
        .with(plain.clone());
    tracing::collect::with_default(stack, emit);
    assert_eq!(filtered.get(), 0, "filtered layer (WARN) must not see DEBUG");
    assert_eq!(
        plain.get(),
        1,
        "boxed root, filtered layer below the plain layer: plain layer must see the event"
    );
}

/// The violation: boxed root, the same two layers in the other order.
#[test]
fn c_boxed_registry_filtered_above() {
    let plain = Count::default();
    let filtered = Count::default();
    let stack = Box::new(Registry::default())
        .with(plain.clone())
        .with(filtered.clone().with_filter(LevelFilter::WARN));
    tracing::collect::with_default(stack, emit);
    assert_eq!(filtered.get(), 0, "filtered layer (WARN) must not see DEBUG");
    assert_eq!(
        plain.get(),
        1,
        "C07 violated (\"the decision never depends on the filters attached to other layers, \
         on the order of layers\"): the plain layer has no filter and no global filter exists, \
         yet it did not receive the DEBUG event because ANOTHER layer's per-layer filter \
         (WARN) rejected it; swapping the two layers (test b) or unboxing the registry (test a) \
         delivers it"
    );
}

/// Same with an `Arc<Registry>` root.
#[test]
fn d_arc_registry_filtered_above() {
    let plain = Count::default();
    let filtered = Count::default();
    let stack = Arc::new(Registry::default())
        .with(plain.clone())
        .with(filtered.clone().with_filter(LevelFilter::WARN));
    tracing::collect::with_default(stack, emit);
    assert_eq!(filtered.get(), 0, "filtered layer (WARN) must not see DEBUG");
    assert_eq!(
        plain.get(),
        1,
        "C07 violated: Arc<Registry> root, plain layer below a per-layer-filtered one: the plain \
         layer's delivery was decided by the other layer's filter"
    );
}
