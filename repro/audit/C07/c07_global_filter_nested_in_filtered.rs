//! C07 demonstration: a global filter layer composed *underneath* a per-layer
//! filter (`layer.and_then(LevelFilter::WARN).with_filter(f)`; the crate's own
//! docs use `LevelFilter::INFO.with_filter(..)`) breaks the isolation of the
//! per-layer filters attached to *other* layers.
//!
//! When a callsite is registered, every `Filtered` adds its filter's
//! `Interest` to a thread-local accumulator which the `Registry` finally takes
//! and returns. `Filtered::register_callsite` also registers the callsite with
//! the layer it wraps (and ignores the answer). If that wrapped layer is a
//! `Layered` whose outer half says `never` (a global `LevelFilter` rejecting
//! the level), `Layered::pick_interest` calls `FilterState::take_interest()`,
//! which throws away the interests that the *other* per-layer filters -- the
//! ones registered earlier in the same pass, i.e. the layers added later --
//! had already contributed. The callsite is then cached as `always`, `enabled`
//! is never called for it again, no filter bit is ever set, and every
//! `Filtered` layer receives the event: including layers whose own filter
//! rejects it. Swapping the order of the two layers changes the outcome.
#![cfg(feature = "registry")]

use std::sync::{Arc, Mutex};
use tracing::{Collect, Event, Level};
use tracing_subscriber::{
    filter::{LevelFilter, Targets},
    prelude::*,
    registry::LookupSpan,
    subscribe::{Context, Subscribe},
};

#[derive(Clone, Default)]
struct Rec {
    seen: Arc<Mutex<Vec<String>>>,
}

impl Rec {
    fn take(&self) -> Vec<String> {
        std::mem::take(&mut *self.seen.lock().unwrap())
    }
}

impl<C> Subscribe<C> for Rec
where
    C: Collect + for<'a> LookupSpan<'a>,
{
    fn on_event(&self, ev: &Event<'_>, _: Context<'_, C>) {
        self.seen.lock().unwrap().push(format!(
            "{} {}",
            ev.metadata().level(),
            ev.metadata().target()
        ));
    }
}

#[test]
fn layer_receives_event_its_own_filter_rejects() {
    // ---- control: layer C added first, layer A' second. C's filter is honoured.
    // (Run first and sequentially, so that this dispatcher is gone before the
    // callsite used below is registered.)
    {
        let (a, c) = (Rec::default(), Rec::default());
        let stack = tracing_subscriber::registry()
            .with(c.clone().with_filter(LevelFilter::ERROR))
            .with(
                a.clone()
                    .and_then(LevelFilter::WARN)
                    .with_filter(Targets::new().with_target("app", Level::TRACE)),
            );
        tracing::collect::with_default(stack, || {
            tracing::info!(target: "app", "an INFO event");
        });
        let (a, c) = (a.take(), c.take());
        println!("order [C, A']: A={:?} C={:?}", a, c);
        assert!(c.is_empty(), "control: C's filter rejects INFO; C got {:?}", c);
    }

    // ---- the same two layers, added in the opposite order.
    let (a, c) = (Rec::default(), Rec::default());
    let stack = tracing_subscriber::registry()
        // layer A: under a global LevelFilter::WARN, and a per-layer target filter
        .with(
            a.clone()
                .and_then(LevelFilter::WARN)
                .with_filter(Targets::new().with_target("app", Level::TRACE)),
        )
        // layer C: its per-layer filter only accepts ERROR
        .with(c.clone().with_filter(LevelFilter::ERROR));

    tracing::collect::with_default(stack, || {
        tracing::info!(target: "app", "an INFO event");
    });

    let (a, c) = (a.take(), c.take());
    println!("order [A', C]: A={:?} C={:?}", a, c);

    assert!(
        c.is_empty(),
        "C07 violated (clause: a layer receives an event iff every per-layer filter attached to \
         that layer accepts it; the decision never depends on the filters attached to other \
         layers or on the order of layers): layer C's only filter is LevelFilter::ERROR, yet C \
         received {:?} (and A, which sits under LevelFilter::WARN, received {:?}). With the two \
         `.with(..)` calls swapped neither layer receives it.",
        c,
        a
    );
}
