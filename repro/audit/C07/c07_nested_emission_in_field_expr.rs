//! C07 demonstration: a per-layer filter's verdict for an event/span is kept
//! in a thread-local bitmap between the callsite's `enabled` check and the
//! later `event`/`new_span` call. The macros evaluate the field value
//! expressions *between* those two steps, so an event emitted from inside a
//! field expression (a very common thing: `info!(value = compute())` where
//! `compute()` logs) overwrites the verdict of the outer event.
#![cfg(feature = "registry")]

use std::sync::{Arc, Mutex};
use tracing::{span, Collect, Event};
use tracing_subscriber::{
    filter::Targets,
    prelude::*,
    registry::LookupSpan,
    subscribe::{Context, Subscribe},
};

#[derive(Clone, Default)]
struct Rec {
    seen: Arc<Mutex<Vec<String>>>,
}

impl Rec {
    fn take(&self) -> Vec<String> {
        std::mem::take(&mut *self.seen.lock().unwrap())
    }
}

impl<C> Subscribe<C> for Rec
where
    C: Collect + for<'a> LookupSpan<'a>,
{
    fn on_event(&self, ev: &Event<'_>, _: Context<'_, C>) {
        self.seen
            .lock()
            .unwrap()
            .push(format!("event target={}", ev.metadata().target()));
    }
    fn on_new_span(&self, attrs: &span::Attributes<'_>, _: &span::Id, _: Context<'_, C>) {
        self.seen
            .lock()
            .unwrap()
            .push(format!("new_span target={}", attrs.metadata().target()));
    }
    fn on_enter(&self, id: &span::Id, cx: Context<'_, C>) {
        let target = cx
            .span(id)
            .map(|s| s.metadata().target())
            .unwrap_or("<invisible>");
        self.seen
            .lock()
            .unwrap()
            .push(format!("enter target={}", target));
    }
}

fn helper() -> u64 {
    // accepted by layer A's filter, rejected by layer B's filter
    tracing::info!(target: "helper", "computing the value");
    42
}

#[test]
fn event_rejected_by_own_filter_is_delivered_after_nested_event() {
    let a = Rec::default();
    let b = Rec::default();
    let collector = tracing_subscriber::registry()
        // layer A only accepts target "helper"
        .with(
            a.clone()
                .with_filter(Targets::new().with_target("helper", tracing::Level::TRACE)),
        )
        // layer B only accepts target "app"
        .with(
            b.clone()
                .with_filter(Targets::new().with_target("app", tracing::Level::TRACE)),
        );

    tracing::collect::with_default(collector, || {
        // Rejected by A's filter (target "app"), accepted by B's.
        tracing::info!(target: "app", value = helper(), "outer event");
    });

    let b_seen = b.take();
    assert_eq!(
        b_seen,
        vec!["event target=app".to_string()],
        "layer B must see exactly the `app` event"
    );

    let a_seen = a.take();
    assert_eq!(
        a_seen,
        vec!["event target=helper".to_string()],
        "C07 violated (clause: a layer receives an event iff every per-layer filter attached \
         to it accepts it / the decision never depends on an event that happened earlier on \
         the thread): layer A's filter accepts only target `helper`, but A received {:?}",
        a_seen
    );
}

#[test]
fn span_rejected_by_own_filter_is_delivered_after_nested_event() {
    let a = Rec::default();
    let b = Rec::default();
    let collector = tracing_subscriber::registry()
        .with(
            a.clone()
                .with_filter(Targets::new().with_target("helper", tracing::Level::TRACE)),
        )
        .with(
            b.clone()
                .with_filter(Targets::new().with_target("app", tracing::Level::TRACE)),
        );

    tracing::collect::with_default(collector, || {
        // Rejected by A's filter (target "app"), accepted by B's.
        let span = tracing::info_span!(target: "app", "outer", value = helper());
        let _e = span.enter();
    });

    let a_seen = a.take();
    assert_eq!(
        a_seen,
        vec!["event target=helper".to_string()],
        "C07 violated (clause: a layer receives a span and that span's later enter/exit/close \
         iff its own per-layer filter accepts it): layer A's filter accepts only target \
         `helper`, but A received {:?}",
        a_seen
    );
}
