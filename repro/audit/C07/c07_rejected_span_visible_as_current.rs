//! C07 demonstration: a span that a layer's per-layer filter rejected is still
//! handed to that layer when it asks its `Context` for the current span
//! (`Context::current_span`, also re-exported as `FmtContext::current_span`),
//! when it asks whether the span exists (`Context::exists`) and through the
//! deprecated-but-public `SpanRef::parent_id`. Only `Context::lookup_current`,
//! `Context::span` and `SpanRef::parent`/`scope` apply the layer's filter.
#![cfg(feature = "registry")]

use std::sync::{Arc, Mutex};
use tracing::{span, Collect, Event};
use tracing_subscriber::{
    filter::Targets,
    prelude::*,
    registry::LookupSpan,
    subscribe::{Context, Subscribe},
};

#[derive(Clone, Default)]
struct Probe {
    /// (what `lookup_current` says, what `current_span` says, `exists(current_span().id())`)
    on_event: Arc<Mutex<Vec<(Option<&'static str>, Option<&'static str>, bool)>>>,
    /// new spans: (name, filtered parent name, deprecated parent_id -> is that span visible?)
    on_new_span: Arc<Mutex<Vec<(&'static str, Option<&'static str>, Option<bool>)>>>,
}

impl<C> Subscribe<C> for Probe
where
    C: Collect + for<'a> LookupSpan<'a>,
{
    fn on_event(&self, _: &Event<'_>, cx: Context<'_, C>) {
        let filtered = cx.lookup_current().map(|s| s.name());
        let current = cx.current_span();
        let unfiltered = current.metadata().map(|m| m.name());
        let exists = current.id().map(|id| cx.exists(id)).unwrap_or(false);
        self.on_event
            .lock()
            .unwrap()
            .push((filtered, unfiltered, exists));
    }

    #[allow(deprecated)]
    fn on_new_span(&self, _: &span::Attributes<'_>, id: &span::Id, cx: Context<'_, C>) {
        let span = cx.span(id).expect("a span this layer was notified about is visible");
        let parent = span.parent().map(|p| p.name());
        // Is the span named by the deprecated `parent_id` one this layer may see?
        let parent_id_visible = span.parent_id().map(|pid| cx.span(pid).is_some());
        self.on_new_span
            .lock()
            .unwrap()
            .push((span.name(), parent, parent_id_visible));
    }
}

fn stack(probe: &Probe) -> impl Collect + Send + Sync {
    tracing_subscriber::registry()
        // an unfiltered layer, so that every span really exists in the registry
        .with(tracing_subscriber::subscribe::Identity::new())
        // the probe only accepts the target "visible"
        .with(
            probe
                .clone()
                .with_filter(Targets::new().with_target("visible", tracing::Level::TRACE)),
        )
}

#[test]
fn current_span_exposes_a_span_the_layers_filter_rejected() {
    let probe = Probe::default();
    tracing::collect::with_default(stack(&probe), || {
        let hidden = tracing::info_span!(target: "hidden", "hidden_span");
        let _e = hidden.enter();
        tracing::info!(target: "visible", "hello");
    });

    let seen = probe.on_event.lock().unwrap().clone();
    assert_eq!(seen.len(), 1, "the probe layer accepts the `visible` event");
    let (filtered, unfiltered, exists) = seen[0];
    assert_eq!(
        filtered, None,
        "lookup_current correctly hides the rejected span"
    );
    assert_eq!(
        (unfiltered, exists),
        (None, false),
        "C07 violated (clause: spans a layer's filter rejected are invisible to that layer when \
         it looks up the current span): the layer's filter rejected `hidden_span`, yet \
         Context::current_span() returned {:?} and Context::exists() on its id returned {}",
        unfiltered,
        exists
    );
}

#[test]
fn deprecated_parent_id_exposes_a_span_the_layers_filter_rejected() {
    let probe = Probe::default();
    tracing::collect::with_default(stack(&probe), || {
        let hidden = tracing::info_span!(target: "hidden", "hidden_span");
        let _e = hidden.enter();
        let _child = tracing::info_span!(target: "visible", "child");
    });

    let seen = probe.on_new_span.lock().unwrap().clone();
    assert_eq!(seen.len(), 1, "only `child` is accepted by the probe's filter");
    let (name, parent, parent_id_visible) = seen[0];
    assert_eq!(name, "child");
    assert_eq!(parent, None, "SpanRef::parent correctly skips the rejected span");
    assert!(
        parent_id_visible != Some(false),
        "C07 violated (clause: spans a layer's filter rejected are invisible to that layer when \
         it walks a scope): the deprecated-but-public SpanRef::parent_id() handed the layer the \
         id of `hidden_span`, a span its own filter rejected (Context::span on that id is None)"
    );
}
