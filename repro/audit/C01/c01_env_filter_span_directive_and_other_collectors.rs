//! C01 demonstration: with an `EnvFilter` span directive whose level is lower
//! than the level of the span it names (`[foo]=info` and a TRACE-level span
//! called `foo`), the collector's own filter answers `Interest::always` for
//! that span callsite, but
//!
//!  * its `max_level_hint` (INFO) is below the callsite's level, so the global
//!    maximum level suppresses a delivery the collector would accept, and
//!  * its dynamic `enabled` answers `false` for the same callsite,
//!
//! so whether the span is delivered to this collector is decided by the
//! process-wide caches, i.e. by which *other* collectors currently exist.
#![cfg(all(feature = "env-filter", feature = "registry"))]
use std::sync::{
    atomic::{AtomicUsize, Ordering},
    Arc,
};
use tracing::{collect::Interest, span, Collect, Dispatch, Event, Metadata};
use tracing_subscriber::{filter::EnvFilter, prelude::*, subscribe::Context, Subscribe};

/// Counts the spans that are delivered to the collector under test.
struct CountSpans(Arc<AtomicUsize>);
impl<C: Collect> Subscribe<C> for CountSpans {
    fn on_new_span(&self, _: &span::Attributes<'_>, _: &span::Id, _: Context<'_, C>) {
        self.0.fetch_add(1, Ordering::SeqCst);
    }
}

/// An unrelated collector with a static, self-consistent filter: it accepts
/// every callsite or no callsite, and gives no max-level hint. It is never
/// installed anywhere; it only exists.
struct Other {
    accept: bool,
}
impl Collect for Other {
    fn register_callsite(&self, _: &'static Metadata<'static>) -> Interest {
        if self.accept {
            Interest::always()
        } else {
            Interest::never()
        }
    }
    fn enabled(&self, _: &Metadata<'_>) -> bool {
        self.accept
    }
    fn new_span(&self, _: &span::Attributes<'_>) -> span::Id {
        span::Id::from_u64(1)
    }
    fn record(&self, _: &span::Id, _: &span::Record<'_>) {}
    fn record_follows_from(&self, _: &span::Id, _: &span::Id) {}
    fn event(&self, _: &Event<'_>) {}
    fn enter(&self, _: &span::Id) {}
    fn exit(&self, _: &span::Id) {}
    fn current_span(&self) -> tracing_core::span::Current {
        tracing_core::span::Current::unknown()
    }
}

/// The one callsite used throughout: a TRACE-level span named `foo`.
fn emit() -> Option<&'static Metadata<'static>> {
    let span = tracing::trace_span!("foo");
    span.metadata()
}

#[test]
fn span_delivery_depends_on_unrelated_collectors() {
    let delivered = Arc::new(AtomicUsize::new(0));
    let filter: EnvFilter = "[foo]=info".parse().unwrap();
    let x: Dispatch = tracing_subscriber::registry()
        .with(filter)
        .with(CountSpans(delivered.clone()))
        .into();
    // X is this thread's current collector for the whole test.
    let _guard = tracing::dispatch::set_default(&x);

    // 1. X is the only collector.
    emit();
    let alone = delivered.swap(0, Ordering::SeqCst);

    // 2. An unrelated collector that accepts everything is created (not installed).
    let y = Dispatch::new(Other { accept: true });
    let meta = emit();
    let with_accepting_other = delivered.swap(0, Ordering::SeqCst);

    // 3. An unrelated collector that rejects everything is created as well.
    let z = Dispatch::new(Other { accept: false });
    emit();
    let with_rejecting_other = delivered.swap(0, Ordering::SeqCst);

    // 4. Both unrelated collectors are dropped and the caches are rebuilt.
    drop(y);
    drop(z);
    tracing::callsite::rebuild_interest_cache();
    emit();
    let alone_again = delivered.swap(0, Ordering::SeqCst);

    // What does X's own filter say about the callsite?
    let meta = meta.expect("the span was enabled in step 2, so it has metadata");
    let own_interest = x.register_callsite(meta);
    let own_enabled = x.enabled(meta);
    let own_hint = tracing::level_filters::LevelFilter::current();

    let observed = (alone, with_accepting_other, with_rejecting_other, alone_again);
    assert!(
        observed == (1, 1, 1, 1) || observed == (0, 0, 0, 0),
        "C01 violated (clauses: `delivered iff the collector's own filter accepts the callsite` \
         and `no matter which other collectors were created, dropped or re-evaluated`): the same \
         TRACE span `foo`, emitted on the same thread to the same current collector \
         (Registry + EnvFilter \"[foo]=info\"), was delivered \
         (alone, +unrelated accepting collector, +unrelated rejecting collector, alone again) = \
         {:?} times. The collector's own filter answers register_callsite={:?}, enabled={}, \
         and the global max level computed from its hint alone is {:?}: it answers `always` for \
         the callsite, yet the global max level (step 1 and 4) and the `sometimes` cache \
         (step 3) suppress the delivery, and only the `always` cache (step 2) lets it through",
        observed,
        own_interest,
        own_enabled,
        own_hint,
    );
}
