//! C01 demonstration: the process-wide `SCOPED_COUNT` shortcut in
//! `tracing_core::dispatch::get_default` can disagree with a thread's stored
//! default collector, so whether a collector receives an event emitted on
//! thread T depends on whether some *unrelated* thread currently has an
//! *unrelated* collector installed as its default.
//!
//! History (all on one thread unless stated):
//!   create A, create B, install A (guard g1), install B (guard g2),
//!   uninstall g1, uninstall g2            <- not LIFO, but every install is undone
//!   emit at c                              (1)
//!   [thread 2] create OTHER, install OTHER
//!   emit at c                              (2)
//!   [thread 2] uninstall OTHER
//!   emit at c                              (3)
//!
//! Emissions (1), (2) and (3) are the same callsite, on the same thread, with
//! no install/uninstall on that thread in between. They must all go to the
//! same place.
use std::sync::{
    atomic::{AtomicUsize, Ordering},
    mpsc, Arc,
};
use tracing::{
    collect::Interest,
    dispatch::{self, Dispatch},
    span, Collect, Event, Metadata,
};

/// Static filter: accepts every callsite (`always`), no max-level hint.
struct AcceptAll(Arc<AtomicUsize>);

impl Collect for AcceptAll {
    fn register_callsite(&self, _: &'static Metadata<'static>) -> Interest {
        Interest::always()
    }
    fn enabled(&self, _: &Metadata<'_>) -> bool {
        true
    }
    fn new_span(&self, _: &span::Attributes<'_>) -> span::Id {
        self.0.fetch_add(1, Ordering::SeqCst);
        span::Id::from_u64(1)
    }
    fn record(&self, _: &span::Id, _: &span::Record<'_>) {}
    fn record_follows_from(&self, _: &span::Id, _: &span::Id) {}
    fn event(&self, _: &Event<'_>) {
        self.0.fetch_add(1, Ordering::SeqCst);
    }
    fn enter(&self, _: &span::Id) {}
    fn exit(&self, _: &span::Id) {}
    fn current_span(&self) -> tracing_core::span::Current {
        tracing_core::span::Current::unknown()
    }
}

fn emit() {
    tracing::info!("hello");
}

#[test]
fn delivery_to_a_collector_depends_on_unrelated_threads_default() {
    let a_count = Arc::new(AtomicUsize::new(0));
    let b_count = Arc::new(AtomicUsize::new(0));
    let other_count = Arc::new(AtomicUsize::new(0));

    let a = Dispatch::new(AcceptAll(a_count.clone()));
    let b = Dispatch::new(AcceptAll(b_count.clone()));

    let g1 = dispatch::set_default(&a);
    let g2 = dispatch::set_default(&b);
    // Both installs are undone, just not in LIFO order.
    drop(g1);
    drop(g2);

    // (1)
    emit();
    let a_alone = a_count.swap(0, Ordering::SeqCst);

    // An unrelated thread installs an unrelated collector as *its* default.
    let (installed_tx, installed_rx) = mpsc::channel();
    let (release_tx, release_rx) = mpsc::channel::<()>();
    let other = Dispatch::new(AcceptAll(other_count.clone()));
    let t = std::thread::spawn(move || {
        let _g = dispatch::set_default(&other);
        installed_tx.send(()).unwrap();
        release_rx.recv().unwrap();
    });
    installed_rx.recv().unwrap();

    // (2)
    emit();
    let a_while_other_thread_has_default = a_count.swap(0, Ordering::SeqCst);

    release_tx.send(()).unwrap();
    t.join().unwrap();

    // (3)
    emit();
    let a_after_other_thread_uninstalled = a_count.swap(0, Ordering::SeqCst);

    assert_eq!(other_count.load(Ordering::SeqCst), 0);
    assert_eq!(b_count.load(Ordering::SeqCst), 0);

    assert_eq!(
        (
            a_alone,
            a_while_other_thread_has_default,
            a_after_other_thread_uninstalled
        ),
        (a_alone, a_alone, a_alone),
        "C01 violated (clause: the process-wide shortcuts never suppress or cause a delivery \
         `no matter which other collectors were created, dropped or re-evaluated`): three \
         identical emissions on this thread, with no install/uninstall on this thread in \
         between, reached collector A (alone, while an unrelated thread had an unrelated \
         default installed, after that thread uninstalled it) = {:?} times; the SCOPED_COUNT \
         fast path in dispatch::get_default ignores this thread's stored default exactly when \
         no *other* scoped default exists anywhere in the process",
        (
            a_alone,
            a_while_other_thread_has_default,
            a_after_other_thread_uninstalled
        ),
    );
}
