//! C01 demonstration: an event emitted through the macros while the emitting
//! thread is inside one of its collector's callbacks (here: the collector's
//! `event` handler logs a follow-up event) is delivered to the thread's current
//! collector, or silently dropped, depending only on whether some *unrelated*
//! thread currently has an *unrelated* collector installed as its scoped
//! default.
//!
//! `dispatch::get_default` has a process-wide shortcut: if `SCOPED_COUNT == 0`
//! it hands out the global default without looking at the per-thread
//! re-entrancy flag; otherwise it takes the slow path, finds `can_enter ==
//! false`, and substitutes `Dispatch::none()` for the thread's collector.
use std::sync::{
    atomic::{AtomicUsize, Ordering},
    mpsc,
};
use tracing::{
    collect::Interest,
    dispatch::{self, Dispatch},
    span, Collect, Event, Metadata,
};

static OUTER: AtomicUsize = AtomicUsize::new(0);
static INNER: AtomicUsize = AtomicUsize::new(0);

/// The global default. Static filter: accepts every callsite (`always`).
/// When it receives an `outer` event it emits an `inner` event (as a collector
/// that calls into instrumented library code from its handler would).
struct Global;

impl Collect for Global {
    fn register_callsite(&self, _: &'static Metadata<'static>) -> Interest {
        Interest::always()
    }
    fn enabled(&self, _: &Metadata<'_>) -> bool {
        true
    }
    fn new_span(&self, _: &span::Attributes<'_>) -> span::Id {
        span::Id::from_u64(1)
    }
    fn record(&self, _: &span::Id, _: &span::Record<'_>) {}
    fn record_follows_from(&self, _: &span::Id, _: &span::Id) {}
    fn event(&self, event: &Event<'_>) {
        match event.metadata().target() {
            "outer" => {
                OUTER.fetch_add(1, Ordering::SeqCst);
                tracing::info!(target: "inner", "follow-up");
            }
            "inner" => {
                INNER.fetch_add(1, Ordering::SeqCst);
            }
            _ => {}
        }
    }
    fn enter(&self, _: &span::Id) {}
    fn exit(&self, _: &span::Id) {}
    fn current_span(&self) -> tracing_core::span::Current {
        tracing_core::span::Current::unknown()
    }
}

/// An unrelated collector that rejects everything.
struct Unrelated;
impl Collect for Unrelated {
    fn register_callsite(&self, _: &'static Metadata<'static>) -> Interest {
        Interest::never()
    }
    fn enabled(&self, _: &Metadata<'_>) -> bool {
        false
    }
    fn new_span(&self, _: &span::Attributes<'_>) -> span::Id {
        span::Id::from_u64(1)
    }
    fn record(&self, _: &span::Id, _: &span::Record<'_>) {}
    fn record_follows_from(&self, _: &span::Id, _: &span::Id) {}
    fn event(&self, _: &Event<'_>) {}
    fn enter(&self, _: &span::Id) {}
    fn exit(&self, _: &span::Id) {}
    fn current_span(&self) -> tracing_core::span::Current {
        tracing_core::span::Current::unknown()
    }
}

fn emit_outer() {
    tracing::info!(target: "outer", "request");
}

#[test]
fn nested_event_delivery_depends_on_unrelated_threads_default() {
    dispatch::set_global_default(Dispatch::new(Global)).unwrap();

    // 1. No scoped default anywhere in the process.
    emit_outer();
    let alone = (
        OUTER.swap(0, Ordering::SeqCst),
        INNER.swap(0, Ordering::SeqCst),
    );

    // 2. An unrelated thread installs an unrelated collector as *its* default.
    let (installed_tx, installed_rx) = mpsc::channel();
    let (release_tx, release_rx) = mpsc::channel::<()>();
    let t = std::thread::spawn(move || {
        let _g = dispatch::set_default(&Dispatch::new(Unrelated));
        installed_tx.send(()).unwrap();
        release_rx.recv().unwrap();
    });
    installed_rx.recv().unwrap();

    emit_outer();
    let while_other_thread_has_default = (
        OUTER.swap(0, Ordering::SeqCst),
        INNER.swap(0, Ordering::SeqCst),
    );

    release_tx.send(()).unwrap();
    t.join().unwrap();

    // 3. The unrelated thread has uninstalled (and dropped) its collector.
    emit_outer();
    let after = (
        OUTER.swap(0, Ordering::SeqCst),
        INNER.swap(0, Ordering::SeqCst),
    );

    assert_eq!(
        (alone, while_other_thread_has_default, after),
        (alone, alone, alone),
        "C01 violated (clauses: the shortcuts in front of the collector `never suppress a \
         delivery the collector would accept`, `no matter which other collectors were created, \
         dropped or re-evaluated`): this thread's current collector is the global default, whose \
         filter answers `always` for every callsite, and this thread did exactly the same thing \
         three times; (outer, inner) events delivered = (alone, while an unrelated thread had an \
         unrelated scoped default, after it was uninstalled) = {:?}. The `inner` event emitted \
         from the collector's handler is delivered on the SCOPED_COUNT == 0 fast path of \
         dispatch::get_default and replaced by a delivery to Dispatch::none() on the slow path",
        (alone, while_other_thread_has_default, after),
    );
}
