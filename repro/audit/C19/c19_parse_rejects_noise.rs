//! C19 demonstration: "names in any letter case and the documented digits are
//! accepted, anything else is rejected".
//!
//! `Level::from_str` and `LevelFilter::from_str` first run the *whole* input
//! through `str::parse::<usize>()`, which accepts an optional leading `+` and
//! any number of leading zeros. So strings that are neither a level name nor one
//! of the documented single digits (1-5 for `Level`, 0-5 for `LevelFilter`) are
//! accepted, and `"00"` even turns everything off.
use tracing_core::{Level, LevelFilter};

#[test]
fn only_names_and_single_documented_digits_parse() {
    let names = ["off", "error", "warn", "info", "debug", "trace"];
    let digits = ["0", "1", "2", "3", "4", "5"];

    // Sanity: the documented spellings behave as stated.
    for (i, d) in digits.iter().enumerate() {
        let f: LevelFilter = d.parse().expect("documented digit");
        assert_eq!(f, names[i].parse::<LevelFilter>().unwrap());
        assert_eq!(f.to_string().parse::<LevelFilter>().unwrap(), f);
    }
    assert!("0".parse::<Level>().is_err());
    assert!("off".parse::<Level>().is_err());

    // Noise around a documented digit: sign prefix and zero padding.
    let mut wrongly_accepted = Vec::new();
    for d in digits {
        for pre in ["+", "0", "00", "+0", "+000000000000000000000000"] {
            let s = format!("{pre}{d}");
            if digits.contains(&s.as_str()) {
                continue;
            }
            if let Ok(l) = s.parse::<Level>() {
                wrongly_accepted.push(format!("{s:?}.parse::<Level>() == Ok({l})"));
            }
            if let Ok(f) = s.parse::<LevelFilter>() {
                wrongly_accepted.push(format!("{s:?}.parse::<LevelFilter>() == Ok({f})"));
            }
        }
    }
    // The same kind of noise is (correctly) rejected everywhere else, which
    // shows that rejecting it is the intended behaviour.
    for s in [" 3", "3 ", "-3", "3.0", "0x3", "+info", "0info", "info0", " info", "3\n"] {
        assert!(s.parse::<Level>().is_err(), "{:?} as Level", s);
        assert!(s.parse::<LevelFilter>().is_err(), "{:?} as LevelFilter", s);
    }

    assert!(
        wrongly_accepted.is_empty(),
        "C19 clause violated: 'anything else is rejected' -- {} strings that are neither a level \
         name nor a documented single digit were accepted:\n{:#?}",
        wrongly_accepted.len(),
        wrongly_accepted
    );
}
