//! C19 demonstration (companion of tracing-core/tests/c19_parse_rejects_noise.rs):
//! a zero-padded digit is not rejected, and the sibling parsers do not even
//! agree on what it means. `"00"` is OFF for `LevelFilter::from_str` and for
//! `Targets`, but `EnvFilter` reads it as "enable TRACE everywhere": its regex
//! only admits a single `[0-5]` as a level, so `00` is captured as a *target*,
//! and env/directive.rs then drops a target that `parse::<LevelFilter>()`
//! accepts and falls back to the `TRACE` default for "target without level".
#![cfg(feature = "env-filter")]
use tracing_subscriber::{
    filter::{LevelFilter, Targets},
    EnvFilter,
};

#[test]
fn the_same_text_means_the_same_level_everywhere_or_is_rejected() {
    let mut failures = Vec::new();
    for text in ["00", "01", "02", "03", "04", "05"] {
        let core = text.parse::<LevelFilter>().ok();
        let targets = text.parse::<Targets>().ok().and_then(|t| t.default_level());
        let env = EnvFilter::builder()
            .parse(text)
            .ok()
            .and_then(|f| f.max_level_hint());
        // Per C19 all three should be `None` (rejected); at the very least they
        // must agree.
        if core.is_some() || targets.is_some() || env.is_some() {
            if !(core == targets && targets == env) {
                failures.push(format!(
                    "{text:?}: LevelFilter::from_str -> {core:?}, Targets -> {targets:?}, EnvFilter -> {env:?}"
                ));
            }
        }
    }
    assert!(
        failures.is_empty(),
        "C19 clause violated: 'the documented digits are accepted, anything else is rejected' / \
         text -> level is one consistent mapping:\n{:#?}",
        failures
    );
}
