//! C19 demonstration: the digit spelling of a level is not one consistent
//! mapping. `"<n>".parse::<Level>()` / `"<n>".parse::<LevelFilter>()` in
//! `tracing-core` use 1 = ERROR ... 5 = TRACE, while `#[instrument(level = <n>)]`
//! (and `err(level = <n>)` / `ret(level = <n>)`, which share the parser in
//! `tracing-attributes/src/attr.rs`) uses 1 = TRACE ... 5 = ERROR.
use std::sync::{Arc, Mutex};
use tracing::{
    level_filters::LevelFilter,
    span::{Attributes, Id},
    Collect, Level,
};
use tracing_attributes::instrument;
use tracing_subscriber::{prelude::*, registry::LookupSpan, subscribe::Context, Subscribe};

struct Rec(Arc<Mutex<Vec<(&'static str, Level)>>>);

impl<C: Collect + for<'a> LookupSpan<'a>> Subscribe<C> for Rec {
    fn on_new_span(&self, a: &Attributes<'_>, _: &Id, _: Context<'_, C>) {
        self.0
            .lock()
            .unwrap()
            .push((a.metadata().name(), *a.metadata().level()));
    }
}

#[instrument(level = 1)]
fn one() {}
#[instrument(level = 2)]
fn two() {}
#[instrument(level = 3)]
fn three() {}
#[instrument(level = 4)]
fn four() {}
#[instrument(level = 5)]
fn five() {}

#[test]
fn instrument_digit_agrees_with_level_from_str_digit() {
    let seen = Arc::new(Mutex::new(Vec::new()));
    tracing::collect::with_default(tracing_subscriber::registry().with(Rec(seen.clone())), || {
        one();
        two();
        three();
        four();
        five();
    });
    let seen = seen.lock().unwrap().clone();
    assert_eq!(seen.len(), 5, "every instrumented fn must have made a span");

    let mut disagreements = Vec::new();
    for (i, (name, attr_level)) in seen.iter().enumerate() {
        let digit = (i + 1).to_string();
        let parsed: Level = digit.parse().expect("digits 1-5 are documented for Level");
        let parsed_filter: LevelFilter = digit.parse().expect("digits 0-5 are documented");
        assert_eq!(parsed, parsed_filter, "Level and LevelFilter digit parsers agree");
        if *attr_level != parsed {
            disagreements.push(format!(
                "#[instrument(level = {digit})] fn {name} -> {attr_level}, but \"{digit}\".parse::<Level>() -> {parsed} \
                 (and \"{digit}\".parse::<LevelFilter>() -> {parsed_filter})"
            ));
        }
    }
    assert!(
        disagreements.is_empty(),
        "C19 clause violated: 'the documented digits are accepted' as ONE consistent spelling of the \
         total order OFF(0) < ERROR(1) < WARN(2) < INFO(3) < DEBUG(4) < TRACE(5); the attribute's digit \
         parser is inverted with respect to FromStr:\n{:#?}",
        disagreements
    );
}
