//! C19 demonstration: "the globally published maximum level reads back as
//! exactly the value that was set".
//!
//! `DirectiveSet::add` (tracing-subscriber/src/filter/directive.rs) only ever
//! *raises* its cached `max_level`. When a directive is *replaced* by one with a
//! less verbose level (`Targets::with_default` / `with_target` called twice,
//! `EnvFilter::add_directive` for an already present target, `Extend`, ...),
//! the cached maximum keeps the old, more verbose value. `max_level_hint()`
//! reports that stale value and it is what gets published as
//! `LevelFilter::current()`, although the filter as configured enables nothing
//! above the new level.
#![cfg(all(feature = "env-filter", feature = "registry"))]
use tracing::level_filters::LevelFilter;
use tracing_subscriber::{filter::Targets, prelude::*, EnvFilter};

fn published_for<S>(filter: S) -> LevelFilter
where
    S: tracing_subscriber::Subscribe<tracing_subscriber::Registry> + Send + Sync + 'static,
{
    let _guard = tracing::collect::set_default(tracing_subscriber::registry().with(filter));
    LevelFilter::current()
}

#[test]
fn published_max_is_the_level_that_was_set() {
    // Control: without a replaced directive the published value is exact,
    // for every filter value.
    for f in [
        LevelFilter::OFF,
        LevelFilter::ERROR,
        LevelFilter::WARN,
        LevelFilter::INFO,
        LevelFilter::DEBUG,
        LevelFilter::TRACE,
    ] {
        assert_eq!(published_for(f), f, "plain LevelFilter layer");
        assert_eq!(published_for(Targets::new().with_default(f)), f, "Targets::with_default once");
        assert_eq!(
            published_for(EnvFilter::new(f.to_string())),
            f,
            "EnvFilter parsed from the printed level"
        );
    }

    let mut failures = Vec::new();

    // Targets: the default level is set to TRACE and then set again to WARN.
    let targets = Targets::new()
        .with_default(LevelFilter::TRACE)
        .with_default(LevelFilter::WARN);
    assert_eq!(targets.default_level(), Some(LevelFilter::WARN));
    assert_eq!(targets.to_string(), "warn");
    assert!(!targets.would_enable("anything", &tracing::Level::INFO));
    let got = published_for(targets);
    if got != LevelFilter::WARN {
        failures.push(format!(
            "Targets::new().with_default(TRACE).with_default(WARN): set WARN, LevelFilter::current() == {got}"
        ));
    }

    // Targets: per-target level replaced.
    let targets = Targets::new()
        .with_target("app", LevelFilter::DEBUG)
        .with_target("app", LevelFilter::OFF);
    assert_eq!(targets.to_string(), "app=off");
    let got = published_for(targets);
    if got != LevelFilter::OFF {
        failures.push(format!(
            "Targets::new().with_target(\"app\", DEBUG).with_target(\"app\", OFF): set OFF, LevelFilter::current() == {got}"
        ));
    }

    // EnvFilter: same replacement through add_directive.
    let filter = EnvFilter::new("trace").add_directive(LevelFilter::ERROR.into());
    assert_eq!(filter.to_string(), "error");
    let got = published_for(filter);
    if got != LevelFilter::ERROR {
        failures.push(format!(
            "EnvFilter::new(\"trace\").add_directive(ERROR.into()) (prints as \"error\"): set ERROR, LevelFilter::current() == {got}"
        ));
    }

    // EnvFilter: an empty directive string silently installs a global `error`
    // directive; turning the filter off afterwards replaces it.
    let filter = EnvFilter::new("").add_directive(LevelFilter::OFF.into());
    assert_eq!(filter.to_string(), "off");
    let got = published_for(filter);
    if got != LevelFilter::OFF {
        failures.push(format!(
            "EnvFilter::new(\"\").add_directive(OFF.into()) (prints as \"off\"): set OFF, LevelFilter::current() == {got}"
        ));
    }

    assert!(
        failures.is_empty(),
        "C19 clause violated: 'the globally published maximum level reads back as exactly the value \
         that was set':\n{:#?}",
        failures
    );
}
