//! C18 demonstration: with the `log` feature and no collector ever installed,
//! every record emitted on behalf of a span must carry "the corresponding
//! level" -- and that level is what has to be compared with `log::max_level()`,
//! exactly as is done for events.
//!
//! Run with: cargo test --offline -p tracing --features log --test c18_log_span_max_level
#![cfg(feature = "log")]

use std::sync::Mutex;

static RECORDS: Mutex<Vec<(log::Level, String, String)>> = Mutex::new(Vec::new());

/// A logger that, like many simple loggers, relies on `log::max_level()` for
/// level filtering and accepts whatever it is handed.
struct Logger;
static LOGGER: Logger = Logger;

impl log::Log for Logger {
    fn enabled(&self, _: &log::Metadata<'_>) -> bool {
        true
    }
    fn log(&self, record: &log::Record<'_>) {
        RECORDS.lock().unwrap().push((
            record.level(),
            record.target().to_string(),
            record.args().to_string(),
        ));
    }
    fn flush(&self) {}
}

fn take() -> Vec<(log::Level, String, String)> {
    RECORDS.lock().unwrap().drain(..).collect()
}

#[test]
fn span_lifecycle_records_respect_the_log_max_level() {
    log::set_logger(&LOGGER).unwrap();
    // Only INFO and more severe records are wanted.
    log::set_max_level(log::LevelFilter::Info);
    assert!(!tracing::dispatch::has_been_set());

    // Events: the record's own level is compared with the max level.
    tracing::info!("kept");
    tracing::trace!("dropped");
    let events = take();
    assert_eq!(events.len(), 1, "events honour log::max_level(): {:?}", events);

    // A TRACE span is silent altogether, as it should be...
    {
        let quiet = tracing::trace_span!("quiet", x = 1);
        quiet.in_scope(|| {});
    }
    assert!(take().is_empty(), "a TRACE span is above the max level");

    // ...but the TRACE-level lifecycle records of an INFO span are not.
    {
        let span = tracing::info_span!("loud", x = 1);
        span.in_scope(|| {});
    }
    let records = take();
    let too_verbose: Vec<_> = records
        .iter()
        .filter(|(level, _, _)| *level > log::max_level())
        .collect();
    assert!(
        too_verbose.is_empty(),
        "C18 clause violated: 'emits exactly one log record with the corresponding level' -- \
         log::max_level() is {:?}, yet the enter/exit/close steps of an INFO span handed the \
         logger {} TRACE-level records (Span::log compares the *span's* level, not the \
         record's level, with log::max_level()): {:?}",
        log::max_level(),
        too_verbose.len(),
        too_verbose
    );
}
