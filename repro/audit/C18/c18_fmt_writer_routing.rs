//! C18 demonstration: a bridged `log` record must not be mislabelled. The `fmt`
//! subscriber normalises a bridged record's metadata when it *formats* the
//! line, but selects the *writer* for that same line from the un-normalised
//! metadata (target "log", no file/line/module path).
//!
//! Run with: cargo test --offline -p tracing-subscriber --test c18_fmt_writer_routing
#![cfg(all(feature = "fmt", feature = "tracing-log"))]

use std::{
    io,
    sync::{Arc, Mutex},
};
use tracing_subscriber::fmt::writer::MakeWriterExt;

#[derive(Clone, Default)]
struct Buf(Arc<Mutex<Vec<u8>>>);

impl io::Write for Buf {
    fn write(&mut self, b: &[u8]) -> io::Result<usize> {
        self.0.lock().unwrap().extend_from_slice(b);
        Ok(b.len())
    }
    fn flush(&mut self) -> io::Result<()> {
        Ok(())
    }
}

impl Buf {
    fn take(&self) -> String {
        String::from_utf8(std::mem::take(&mut *self.0.lock().unwrap())).unwrap()
    }
}

#[test]
fn bridged_record_is_routed_by_its_own_target() {
    tracing_log::LogTracer::init().unwrap();

    let payments = Buf::default();
    let rest = Buf::default();
    let (p, r) = (payments.clone(), rest.clone());

    // Everything whose target is `payments` goes to one writer, the rest to another.
    let make_writer = (move || p.clone())
        .with_filter(|meta| meta.target() == "payments")
        .or_else(move || r.clone());

    let collector = tracing_subscriber::fmt()
        .with_writer(make_writer)
        .with_ansi(false)
        .without_time()
        .finish();

    tracing::collect::with_default(collector, || {
        // A native event with that target ends up in the `payments` writer.
        tracing::info!(target: "payments", "native");
        let native = payments.take();
        assert!(native.contains("payments: native"), "native event: {:?}", native);
        assert!(rest.take().is_empty());

        // The same thing said through `log`.
        log::info!(target: "payments", "bridged");
        let in_payments = payments.take();
        let in_rest = rest.take();
        println!("payments writer: {:?}\nfallback writer: {:?}", in_payments, in_rest);

        assert!(
            in_payments.contains("bridged"),
            "C18 violated (mislabelling): the bridged record's normalised target is `payments` \
             (the line was formatted as {:?}), but the writer was chosen for target `log`, so the \
             line went to the wrong writer; `payments` writer got {:?}",
            in_rest,
            in_payments
        );
    });
}
