#![cfg(all(feature = "env-filter", feature = "tracing-log"))]
use std::sync::{Arc, Mutex};
use tracing::{Collect, Dispatch, Event, Level, Metadata};
use tracing_log::NormalizeEvent;
use tracing_subscriber::{
    filter::{self, EnvFilter, LevelFilter, Targets},
    prelude::*,
    registry::LookupSpan,
    subscribe::Context,
    Subscribe,
};

type Log = Arc<Mutex<Vec<(&'static str, String, Level, String)>>>;

struct Rec(&'static str, Log);

impl<C: Collect + for<'a> LookupSpan<'a>> Subscribe<C> for Rec {
    fn on_event(&self, event: &Event<'_>, _: Context<'_, C>) {
        let norm = event.normalized_metadata();
        let meta: &Metadata<'_> = norm.as_ref().unwrap_or_else(|| event.metadata());
        struct V(String);
        impl tracing::field::Visit for V {
            fn record_debug(&mut self, f: &tracing::field::Field, v: &dyn std::fmt::Debug) {
                if f.name() == "message" {
                    self.0 = format!("{:?}", v);
                }
            }
        }
        let mut v = V(String::new());
        event.record(&mut v);
        self.1
            .lock()
            .unwrap()
            .push((self.0, meta.target().to_string(), *meta.level(), v.0));
    }
}

const TARGETS: &[&str] = &["foo", "foo::bar", "bar::baz", "other", "", "log", "foobar"];
const LEVELS: &[log::Level] = &[
    log::Level::Error,
    log::Level::Warn,
    log::Level::Info,
    log::Level::Debug,
    log::Level::Trace,
];

fn lvl(l: log::Level) -> Level {
    match l {
        log::Level::Error => Level::ERROR,
        log::Level::Warn => Level::WARN,
        log::Level::Info => Level::INFO,
        log::Level::Debug => Level::DEBUG,
        log::Level::Trace => Level::TRACE,
    }
}

fn targets_match(dirs: &[(&str, Level)], default: Option<Level>, t: &str, l: Level) -> bool {
    // most specific (longest) matching prefix wins
    let mut best: Option<(&str, Level)> = None;
    for (p, pl) in dirs {
        if t.starts_with(p) {
            if best.map(|(b, _)| p.len() > b.len()).unwrap_or(true) {
                best = Some((p, *pl));
            }
        }
    }
    match best {
        Some((_, pl)) => l <= pl,
        None => default.map(|d| l <= d).unwrap_or(false),
    }
}

fn run(
    name: &str,
    dispatch: Dispatch,
    log: &Log,
    oracle: &dyn Fn(&str, Level) -> Vec<&'static str>,
) -> usize {
    let mut bad = 0;
    tracing::dispatch::with_default(&dispatch, || {
        for round in 0..2 {
            for t in TARGETS {
                for l in LEVELS {
                    log.lock().unwrap().clear();
                    let msg = format!("m-{}-{}-{}", round, t, l);
                    log::logger().log(
                        &log::Record::builder()
                            .args(format_args!("{}", msg))
                            .level(*l)
                            .target(t)
                            .build(),
                    );
                    let got: Vec<_> = log.lock().unwrap().drain(..).collect();
                    let mut want = oracle(t, lvl(*l));
                    want.sort();
                    let mut got_names: Vec<_> = got.iter().map(|g| g.0).collect();
                    got_names.sort();
                    let labels_ok = got
                        .iter()
                        .all(|g| g.1 == *t && g.2 == lvl(*l) && g.3 == msg);
                    if want != got_names || !labels_ok {
                        bad += 1;
                        println!(
                            "[{}] round {} target {:?} level {}: want {:?} got {:?}",
                            name, round, t, l, want, got
                        );
                    }
                }
            }
        }
    });
    bad
}

#[test]
fn explore() {
    tracing_log::LogTracer::init().unwrap();
    let log: Log = Default::default();
    let mut bad = 0;

    // 1. two per-layer filters
    {
        let d: Dispatch = tracing_subscriber::registry()
            .with(Rec("A", log.clone()).with_filter(
                Targets::new().with_target("foo", Level::DEBUG),
            ))
            .with(Rec("B", log.clone()).with_filter(LevelFilter::WARN))
            .into();
        bad += run("psf2", d, &log, &|t, l| {
            let mut v = vec![];
            if targets_match(&[("foo", Level::DEBUG)], None, t, l) {
                v.push("A");
            }
            if l <= Level::WARN {
                v.push("B");
            }
            v
        });
    }
    // 2. global env filter
    {
        let f: EnvFilter = "foo=debug,bar::baz=trace,warn".parse().unwrap();
        let d: Dispatch = tracing_subscriber::registry()
            .with(f)
            .with(Rec("A", log.clone()))
            .into();
        bad += run("envglobal", d, &log, &|t, l| {
            if targets_match(
                &[("foo", Level::DEBUG), ("bar::baz", Level::TRACE)],
                Some(Level::WARN),
                t,
                l,
            ) {
                vec!["A"]
            } else {
                vec![]
            }
        });
    }
    // 3. env filter per-layer + unfiltered
    {
        let f: EnvFilter = "foo=debug,bar::baz=trace,warn".parse().unwrap();
        let d: Dispatch = tracing_subscriber::registry()
            .with(Rec("A", log.clone()).with_filter(f))
            .with(Rec("B", log.clone()))
            .into();
        bad += run("envpsf+plain", d, &log, &|t, l| {
            let mut v = vec!["B"];
            if targets_match(
                &[("foo", Level::DEBUG), ("bar::baz", Level::TRACE)],
                Some(Level::WARN),
                t,
                l,
            ) {
                v.push("A")
            }
            v
        });
    }
    // 4. global level + psf
    {
        let d: Dispatch = tracing_subscriber::registry()
            .with(Rec("A", log.clone()).with_filter(Targets::new().with_target("foo", Level::TRACE)))
            .with(LevelFilter::INFO)
            .into();
        bad += run("global+psf", d, &log, &|t, l| {
            if l <= Level::INFO && targets_match(&[("foo", Level::TRACE)], None, t, l) {
                vec!["A"]
            } else {
                vec![]
            }
        });
    }
    // 4b. global level outermost last psf first
    {
        let d: Dispatch = tracing_subscriber::registry()
            .with(LevelFilter::INFO)
            .with(Rec("A", log.clone()).with_filter(Targets::new().with_target("foo", Level::TRACE)))
            .with(Rec("B", log.clone()).with_filter(LevelFilter::ERROR))
            .into();
        bad += run("global-inner+psf", d, &log, &|t, l| {
            let mut v = vec![];
            if l <= Level::INFO && targets_match(&[("foo", Level::TRACE)], None, t, l) {
                v.push("A");
            }
            if l <= Level::ERROR {
                v.push("B");
            }
            v
        });
    }
    // 5. reload
    {
        let (f, h) = tracing_subscriber::reload::Subscriber::new(LevelFilter::WARN);
        let d: Dispatch = tracing_subscriber::registry()
            .with(f)
            .with(Rec("A", log.clone()))
            .into();
        bad += run("reload-before", d.clone(), &log, &|_, l| {
            if l <= Level::WARN { vec!["A"] } else { vec![] }
        });
        h.reload(LevelFilter::TRACE).unwrap();
        bad += run("reload-after", d.clone(), &log, &|_, _| vec!["A"]);
        h.reload(LevelFilter::ERROR).unwrap();
        bad += run("reload-after2", d, &log, &|_, l| {
            if l <= Level::ERROR { vec!["A"] } else { vec![] }
        });
        // restore log max level
        log::set_max_level(log::LevelFilter::Trace);
    }
    // 5b. reload per-layer filter
    {
        let (f, h) = tracing_subscriber::reload::Subscriber::new(LevelFilter::WARN);
        let d: Dispatch = tracing_subscriber::registry()
            .with(Rec("A", log.clone()).with_filter(f))
            .with(Rec("B", log.clone()).with_filter(LevelFilter::ERROR))
            .into();
        bad += run("reloadpsf-before", d.clone(), &log, &|_, l| {
            let mut v = vec![];
            if l <= Level::WARN { v.push("A") }
            if l <= Level::ERROR { v.push("B") }
            v
        });
        h.reload(LevelFilter::TRACE).unwrap();
        bad += run("reloadpsf-after", d.clone(), &log, &|_, l| {
            let mut v = vec!["A"];
            if l <= Level::ERROR { v.push("B") }
            v
        });
        log::set_max_level(log::LevelFilter::Trace);
    }
    // 6. Option none + psf
    {
        let d: Dispatch = tracing_subscriber::registry()
            .with(None::<Rec>)
            .with(Rec("A", log.clone()).with_filter(LevelFilter::DEBUG))
            .into();
        bad += run("none+psf", d, &log, &|_, l| {
            if l <= Level::DEBUG { vec!["A"] } else { vec![] }
        });
        let d: Dispatch = tracing_subscriber::registry()
            .with(Rec("A", log.clone()).with_filter(LevelFilter::DEBUG))
            .with(None::<Rec>)
            .into();
        bad += run("psf+none", d, &log, &|_, l| {
            if l <= Level::DEBUG { vec!["A"] } else { vec![] }
        });
        let d: Dispatch = tracing_subscriber::registry()
            .with(Rec("A", log.clone()))
            .with(None::<LevelFilter>)
            .into();
        bad += run("plain+nonefilter", d, &log, &|_, _| vec!["A"]);
        let d: Dispatch = tracing_subscriber::registry()
            .with(Rec("A", log.clone()).with_filter(None::<LevelFilter>))
            .with(Rec("B", log.clone()).with_filter(LevelFilter::ERROR))
            .into();
        bad += run("psf-nonefilter", d, &log, &|_, l| {
            let mut v = vec!["A"];
            if l <= Level::ERROR { v.push("B") }
            v
        });
    }
    // 7. fmt builder
    {
        let d: Dispatch = tracing_subscriber::fmt()
            .with_max_level(Level::DEBUG)
            .with_writer(std::io::sink)
            .finish()
            .with(Rec("A", log.clone()))
            .into();
        bad += run("fmt-maxlevel", d, &log, &|_, l| {
            if l <= Level::DEBUG { vec!["A"] } else { vec![] }
        });
        let d: Dispatch = tracing_subscriber::fmt()
            .with_env_filter("foo=trace,error")
            .with_writer(std::io::sink)
            .finish()
            .with(Rec("A", log.clone()))
            .into();
        bad += run("fmt-env", d, &log, &|t, l| {
            if targets_match(&[("foo", Level::TRACE)], Some(Level::ERROR), t, l) { vec!["A"] } else { vec![] }
        });
    }
    // 8. filter fns
    {
        let d: Dispatch = tracing_subscriber::registry()
            .with(Rec("A", log.clone()).with_filter(filter::filter_fn(|m| m.target() == "other")))
            .with(Rec("B", log.clone()).with_filter(filter::dynamic_filter_fn(|m, _| m.target().starts_with("foo") && *m.level() <= Level::INFO)))
            .with(Rec("C", log.clone()).with_filter(filter::filter_fn(|m| m.target() == "foo" && *m.level() <= Level::WARN).with_max_level_hint(Level::WARN)))
            .into();
        bad += run("filterfns", d, &log, &|t, l| {
            let mut v = vec![];
            if t == "other" { v.push("A") }
            if t.starts_with("foo") && l <= Level::INFO { v.push("B") }
            if t == "foo" && l <= Level::WARN { v.push("C") }
            v
        });
    }
    // 9. vec of boxed
    {
        let v: Vec<Box<dyn Subscribe<_> + Send + Sync>> = vec![
            Rec("A", log.clone()).with_filter(LevelFilter::INFO).boxed(),
            Rec("B", log.clone()).with_filter(Targets::new().with_target("foo", Level::TRACE)).boxed(),
        ];
        let d: Dispatch = tracing_subscriber::registry().with(v).into();
        bad += run("vecpsf", d, &log, &|t, l| {
            let mut v = vec![];
            if l <= Level::INFO { v.push("A") }
            if targets_match(&[("foo", Level::TRACE)], None, t, l) { v.push("B") }
            v
        });
        let v: Vec<Box<dyn Subscribe<_> + Send + Sync>> = vec![
            Rec("A", log.clone()).with_filter(LevelFilter::INFO).boxed(),
            Rec("B", log.clone()).boxed(),
        ];
        let d: Dispatch = tracing_subscriber::registry().with(v).into();
        bad += run("vecmixed", d, &log, &|_, l| {
            let mut v = vec!["B"];
            if l <= Level::INFO { v.push("A") }
            v
        });
    }
    // 10. combinators
    {
        use tracing_subscriber::filter::FilterExt;
        let f = LevelFilter::INFO.and(Targets::new().with_target("foo", Level::TRACE));
        let g = LevelFilter::ERROR.or(Targets::new().with_target("bar", Level::DEBUG));
        let h = Targets::new().with_target("foo", Level::TRACE).not();
        let d: Dispatch = tracing_subscriber::registry()
            .with(Rec("A", log.clone()).with_filter(f))
            .with(Rec("B", log.clone()).with_filter(g))
            .with(Rec("C", log.clone()).with_filter(h))
            .into();
        bad += run("combinators", d, &log, &|t, l| {
            let mut v = vec![];
            if l <= Level::INFO && t.starts_with("foo") { v.push("A") }
            if l <= Level::ERROR || (t.starts_with("bar") && l <= Level::DEBUG) { v.push("B") }
            if !t.starts_with("foo") { v.push("C") }
            v
        });
    }
    // 11. and_then + filter
    {
        let d: Dispatch = tracing_subscriber::registry()
            .with(Rec("A", log.clone()).and_then(Rec("B", log.clone())).with_filter(LevelFilter::INFO))
            .with(Rec("C", log.clone()).with_filter(LevelFilter::ERROR).and_then(Rec("D", log.clone()).with_filter(LevelFilter::DEBUG)))
            .into();
        bad += run("and_then", d, &log, &|_, l| {
            let mut v = vec![];
            if l <= Level::INFO { v.push("A"); v.push("B") }
            if l <= Level::ERROR { v.push("C") }
            if l <= Level::DEBUG { v.push("D") }
            v
        });
    }
    // 12. nested filtered
    {
        let d: Dispatch = tracing_subscriber::registry()
            .with(Rec("A", log.clone()).with_filter(LevelFilter::DEBUG).with_filter(Targets::new().with_target("foo", Level::TRACE)))
            .with(Rec("B", log.clone()).with_filter(LevelFilter::ERROR))
            .into();
        bad += run("nestedpsf", d, &log, &|t, l| {
            let mut v = vec![];
            if l <= Level::DEBUG && t.starts_with("foo") { v.push("A") }
            if l <= Level::ERROR { v.push("B") }
            v
        });
    }
    // 13. two dispatchers alive, other has lower hint
    {
        let _other: Dispatch = tracing_subscriber::registry().with(LevelFilter::ERROR).into();
        let d: Dispatch = tracing_subscriber::registry()
            .with(LevelFilter::DEBUG)
            .with(Rec("A", log.clone()))
            .into();
        let _other2: Dispatch = tracing_subscriber::registry().with(LevelFilter::OFF).into();
        bad += run("two-dispatch", d, &log, &|_, l| {
            if l <= Level::DEBUG { vec!["A"] } else { vec![] }
        });
    }
    assert_eq!(bad, 0);
}
