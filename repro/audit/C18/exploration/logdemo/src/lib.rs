use log::{Log, Metadata, Record};
use std::sync::Mutex;

pub struct Rec {
    pub level: log::Level,
    pub target: String,
    pub text: String,
}

pub static RECORDS: Mutex<Vec<Rec>> = Mutex::new(Vec::new());

struct Logger;

impl Log for Logger {
    fn enabled(&self, _: &Metadata) -> bool {
        true
    }
    fn log(&self, record: &Record) {
        RECORDS.lock().unwrap().push(Rec {
            level: record.level(),
            target: record.target().to_string(),
            text: format!("{}", record.args()),
        });
    }
    fn flush(&self) {}
}

pub fn install() {
    log::set_boxed_logger(Box::new(Logger)).unwrap();
    log::set_max_level(log::LevelFilter::Trace);
}

pub fn take() -> Vec<(log::Level, String, String)> {
    RECORDS
        .lock()
        .unwrap()
        .drain(..)
        .map(|r| (r.level, r.target, r.text))
        .collect()
}
