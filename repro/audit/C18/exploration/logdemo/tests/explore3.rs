use logdemo::{install, take};
use tracing::Level;

#[derive(Debug)]
struct S { a: u8 }

#[test]
fn explore() {
    install();
    let e: Box<dyn std::error::Error + 'static> = "boom".into();
    tracing::error!(err = &*e as &(dyn std::error::Error + 'static), b = true, f = 1.5, i = -3i64, big = u128::MAX, s = "str\"q", d = %"disp", g = ?S{a:1}, "the {} message", "fmt");
    println!("{:?}", take());
    tracing::trace!(target: "tt", x = 1, message = "late message");
    println!("{:?}", take());
    tracing::debug!(parent: None, "root {}", 1);
    println!("{:?}", take());
    tracing::event!(name: "nm", parent: None, Level::WARN, k = 1);
    println!("{:?}", take());
    tracing::event!(name: "nm", target: "tgt", parent: None, Level::WARN, k = 1, "m");
    println!("{:?}", take());
    tracing::event!(name: "nm", Level::WARN, k = 1, "m");
    println!("{:?}", take());
    let s = tracing::span!(target: "st", parent: None, Level::ERROR, "psp", "quoted field" = 1, r#type = 2, a.b = 3);
    println!("{:?}", take());
    let c = tracing::span!(parent: &s, Level::DEBUG, "child");
    println!("{:?}", take());
    drop(c); drop(s);
    println!("{:?}", take());
    #[tracing::instrument(level = "info", ret, err)]
    fn f(x: u8) -> Result<u8, String> { if x > 0 { Ok(x) } else { Err("bad".into()) } }
    let _ = f(1);
    println!("{:?}", take());
    let _ = f(0);
    println!("{:?}", take());
}
