use logdemo::{install, take};
use tracing::Level;

#[test]
fn explore() {
    install();
    tracing::info!(a = 1, "hello {}", 2);
    println!("event: {:?}", take());
    tracing::event!(name: "n", target: "t", Level::WARN, a = 1, b = ?"x", "msg");
    println!("event2: {:?}", take());
    {
        let span = tracing::span!(Level::INFO, "sp", x = 1, y = tracing::field::Empty);
        println!("new: {:?}", take());
        {
            let _e = span.enter();
            println!("enter: {:?}", take());
        }
        println!("exit: {:?}", take());
        span.record("y", 5);
        println!("record: {:?}", take());
        let c = span.clone();
        println!("clone: {:?}", take());
        drop(c);
        println!("drop clone: {:?}", take());
        let e = span.entered();
        println!("entered: {:?}", take());
        let span = e.exit();
        println!("exit(): {:?}", take());
        drop(span);
        println!("drop: {:?}", take());
    }
    {
        let span = tracing::trace_span!("nofields");
        println!("new: {:?}", take());
        span.in_scope(|| ());
        println!("in_scope: {:?}", take());
    }
    println!("drop: {:?}", take());
}
