use logdemo::{install, take};
use tracing::Level;
use tracing_core::{span, Collect, Event, Metadata};

struct C;
impl Collect for C {
    fn enabled(&self, _: &Metadata<'_>) -> bool { true }
    fn new_span(&self, _: &span::Attributes<'_>) -> span::Id { span::Id::from_u64(1) }
    fn record(&self, _: &span::Id, _: &span::Record<'_>) {}
    fn record_follows_from(&self, _: &span::Id, _: &span::Id) {}
    fn event(&self, _: &Event<'_>) {}
    fn enter(&self, _: &span::Id) {}
    fn exit(&self, _: &span::Id) {}
    fn current_span(&self) -> span::Current { span::Current::unknown() }
}

fn emit() {
    tracing::info!(a = 1, "hello {}", 2);
    let span = tracing::span!(Level::INFO, "sp", x = 1);
    span.in_scope(|| ());
}

#[test]
fn explore() {
    install();
    emit();
    println!("before: {:?}", take());
    let d = tracing::Dispatch::new(C);
    emit();
    println!("created, not installed: {:?}", take());
    emit();
    println!("created, not installed (2nd): {:?}", take());
    drop(d);
    emit();
    println!("created then dropped: {:?}", take());
    let pre = tracing::span!(Level::INFO, "pre", x = 1);
    take();
    {
        let _g = tracing::dispatch::set_default(&tracing::Dispatch::none());
    }
    emit();
    drop(pre);
    println!("after none installed+removed: {:?}", take());
}
