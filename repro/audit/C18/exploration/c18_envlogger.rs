#![cfg(feature = "env_logger")]
use std::sync::{Arc, Mutex};
use tracing_core::{span, Collect, Event, Metadata};
use tracing_log::NormalizeEvent;

struct C(Arc<Mutex<Vec<String>>>);
impl Collect for C {
    fn enabled(&self, m: &Metadata<'_>) -> bool { m.target() != "nope" }
    fn new_span(&self, _: &span::Attributes<'_>) -> span::Id { span::Id::from_u64(1) }
    fn record(&self, _: &span::Id, _: &span::Record<'_>) {}
    fn record_follows_from(&self, _: &span::Id, _: &span::Id) {}
    fn event(&self, e: &Event<'_>) {
        let m = e.normalized_metadata().unwrap();
        self.0.lock().unwrap().push(format!("{} {} {:?} {:?} {:?}", m.level(), m.target(), m.file(), m.line(), m.module_path()));
    }
    fn enter(&self, _: &span::Id) {}
    fn exit(&self, _: &span::Id) {}
    fn current_span(&self) -> span::Current { span::Current::unknown() }
}

#[test]
fn t() {
    std::env::set_var("RUST_LOG", "trace");
    tracing_log::env_logger::init();
    let v = Arc::new(Mutex::new(Vec::new()));
    tracing::collect::with_default(C(v.clone()), || {
        log::info!("a");
        log::trace!(target: "x", "b");
        log::error!(target: "nope", "c");
    });
    println!("{:?}", v.lock().unwrap());
    assert_eq!(v.lock().unwrap().len(), 2);
}
