use std::sync::{Arc, Mutex};
use tracing_core::{span, Collect, Event, Metadata, Dispatch};
use tracing_log::NormalizeEvent;

struct C(Arc<Mutex<Vec<String>>>);
impl Collect for C {
    fn enabled(&self, _: &Metadata<'_>) -> bool { true }
    fn new_span(&self, _: &span::Attributes<'_>) -> span::Id { span::Id::from_u64(1) }
    fn record(&self, _: &span::Id, _: &span::Record<'_>) {}
    fn record_follows_from(&self, _: &span::Id, _: &span::Id) {}
    fn event(&self, e: &Event<'_>) {
        if e.is_log() {
            self.0.lock().unwrap().push("log".into());
        } else {
            self.0.lock().unwrap().push("native".into());
            // a collector that (through some dependency) uses `log` while handling an event
            log::info!("from inside the collector");
        }
    }
    fn enter(&self, _: &span::Id) {}
    fn exit(&self, _: &span::Id) {}
    fn current_span(&self) -> span::Current { span::Current::unknown() }
}

#[test]
fn t() {
    tracing_log::LogTracer::init().unwrap();
    let v = Arc::new(Mutex::new(Vec::new()));
    let d = Dispatch::new(C(v.clone()));
    tracing::dispatch::with_default(&d, || {
        tracing::info!("x");
    });
    println!("scoped: {:?}", v.lock().unwrap().drain(..).collect::<Vec<_>>());
    tracing::dispatch::set_global_default(d).unwrap();
    tracing::info!("x");
    println!("global: {:?}", v.lock().unwrap().drain(..).collect::<Vec<_>>());
}
