use tracing_core::{callsite::Callsite, collect::Interest, field::FieldSet, identify_callsite, metadata::Kind, Level, Metadata};
use tracing_log::AsTrace;

struct MyCs;
static MY_CS: MyCs = MyCs;
static MY_META: Metadata<'static> = Metadata::new(
    "mine", "my_target", Level::INFO, None, None, None,
    FieldSet::new(&["message"], identify_callsite!(&MY_CS)), Kind::EVENT);
impl Callsite for MyCs {
    fn set_interest(&self, _: Interest) {}
    fn metadata(&self) -> &Metadata<'_> { &MY_META }
}

#[test]
fn cs() {
    let ll = [log::Level::Error, log::Level::Warn, log::Level::Info, log::Level::Debug, log::Level::Trace];
    let ids: Vec<_> = ll.iter().map(|l| {
        let r = log::Record::builder().level(*l).build();
        let m = r.as_trace();
        m.callsite()
    }).collect();
    println!("mine {:?}", MY_META.callsite());
    for a in ids.iter() {
        println!("{:?}", a);
        assert_ne!(*a, MY_META.callsite());
    }
}
