use tracing_log::{AsLog, AsTrace};
use tracing_core::{Level, LevelFilter};

#[test]
fn levels() {
    let ll = [log::Level::Error, log::Level::Warn, log::Level::Info, log::Level::Debug, log::Level::Trace];
    let tl = [Level::ERROR, Level::WARN, Level::INFO, Level::DEBUG, Level::TRACE];
    for (i, a) in ll.iter().enumerate() {
        assert_eq!(a.as_trace(), tl[i]);
        assert_eq!(tl[i].as_log(), *a);
        for (j, b) in ll.iter().enumerate() {
            assert_eq!(a.cmp(b), tl[i].cmp(&tl[j]), "{:?} {:?}", a, b);
            assert_eq!(a.partial_cmp(b), tl[i].partial_cmp(&tl[j]));
            assert_eq!(a < b, tl[i] < tl[j]);
            assert_eq!(a <= b, tl[i] <= tl[j]);
            assert_eq!(a > b, tl[i] > tl[j]);
            assert_eq!(a >= b, tl[i] >= tl[j]);
        }
    }
    let lf = [log::LevelFilter::Off, log::LevelFilter::Error, log::LevelFilter::Warn, log::LevelFilter::Info, log::LevelFilter::Debug, log::LevelFilter::Trace];
    let tf = [LevelFilter::OFF, LevelFilter::ERROR, LevelFilter::WARN, LevelFilter::INFO, LevelFilter::DEBUG, LevelFilter::TRACE];
    for (i, a) in lf.iter().enumerate() {
        assert_eq!(a.as_trace(), tf[i]);
        assert_eq!(tf[i].as_log(), *a);
        for (j, b) in lf.iter().enumerate() {
            assert_eq!(a.cmp(b), tf[i].cmp(&tf[j]), "{:?} {:?}", a, b);
            assert_eq!(a.partial_cmp(b), tf[i].partial_cmp(&tf[j]));
            assert_eq!(a < b, tf[i] < tf[j]);
            assert_eq!(a <= b, tf[i] <= tf[j]);
            assert_eq!(a > b, tf[i] > tf[j]);
            assert_eq!(a >= b, tf[i] >= tf[j]);
            assert_eq!(std::cmp::max(*a, *b).as_trace(), std::cmp::max(tf[i], tf[j]));
            assert_eq!(std::cmp::min(*a, *b).as_trace(), std::cmp::min(tf[i], tf[j]));
        }
        for (j, b) in ll.iter().enumerate() {
            assert_eq!(b.partial_cmp(a), tl[j].partial_cmp(&tf[i]), "{:?} {:?}", b, a);
            assert_eq!(a.partial_cmp(b), tf[i].partial_cmp(&tl[j]), "{:?} {:?}", a, b);
            assert_eq!(b <= a, tl[j] <= tf[i]);
            assert_eq!(b < a, tl[j] < tf[i]);
            assert_eq!(b > a, tl[j] > tf[i]);
            assert_eq!(b >= a, tl[j] >= tf[i]);
            assert_eq!(a <= b, tf[i] <= tl[j]);
            assert_eq!(a == b, tf[i] == tl[j]);
            assert_eq!(b == a, tl[j] == tf[i]);
        }
    }
}
