//! C18 demonstration: with the `log` feature and no collector ever installed,
//! the "span closed" lifecycle step must emit exactly one `log` record.
//!
//! Run with: cargo test --offline -p tracing --features log --test c18_log_span_clone_close
#![cfg(feature = "log")]

use std::sync::Mutex;

static RECORDS: Mutex<Vec<(log::Level, String, String)>> = Mutex::new(Vec::new());

struct Logger;
static LOGGER: Logger = Logger;

impl log::Log for Logger {
    fn enabled(&self, _: &log::Metadata<'_>) -> bool {
        true
    }
    fn log(&self, record: &log::Record<'_>) {
        RECORDS.lock().unwrap().push((
            record.level(),
            record.target().to_string(),
            record.args().to_string(),
        ));
    }
    fn flush(&self) {}
}

fn take() -> Vec<(log::Level, String, String)> {
    RECORDS.lock().unwrap().drain(..).collect()
}

#[test]
fn one_span_emits_exactly_one_close_record() {
    log::set_logger(&LOGGER).unwrap();
    log::set_max_level(log::LevelFilter::Trace);
    assert!(
        !tracing::dispatch::has_been_set(),
        "precondition: no collector was ever installed"
    );

    // One span is created through the macros...
    let span = tracing::info_span!("request", id = 7);
    let created = take();
    assert_eq!(created.len(), 1, "creation step: {:?}", created);

    // ...a second handle to the *same* span is made (this is not a lifecycle
    // step and is, correctly, not logged)...
    let handle = span.clone();
    assert!(take().is_empty(), "cloning a handle is not a lifecycle step");

    // ...and the extra handle goes away while the span is still alive: the
    // span has not been closed, so nothing may be logged.
    drop(handle);
    let after_handle_drop = take();

    // The span is still usable: it can be entered and exited.
    span.in_scope(|| {});
    let activity = take();
    assert_eq!(activity.len(), 2, "enter + exit: {:?}", activity);

    // Now the span really goes away.
    drop(span);
    let after_span_drop = take();

    let closes: Vec<_> = after_handle_drop
        .iter()
        .chain(after_span_drop.iter())
        .filter(|(_, target, text)| target == "tracing::span" && text.starts_with("-- request"))
        .collect();

    assert!(
        after_handle_drop.is_empty(),
        "C18 clause violated: 'each ... span lifecycle step emits exactly one log record' -- \
         dropping a cloned handle of a span that is still open (and is entered afterwards) \
         invented a close record: {:?}",
        after_handle_drop
    );
    assert_eq!(
        closes.len(),
        1,
        "C18 clause violated: 'each ... span lifecycle step emits exactly one log record' -- \
         the single close of span `request` produced {} close records: {:?}",
        closes.len(),
        closes
    );
}
