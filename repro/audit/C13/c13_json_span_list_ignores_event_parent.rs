//! C13 demonstration: the JSON formatter's `"spans"` list is built from the
//! thread's *current* span (`Context::lookup_current`) instead of from the scope
//! of the event being formatted (`FmtContext::event_scope`).
//!
//! Violated clause: "the record names [...] every span in scope in nesting order
//! with its fields" -- for the JSON format, for events with an explicit parent and
//! for the synthesized span lifecycle records (new / exit / close), whose parent is
//! always explicit.
//!
//! Run with:
//!   cargo test --offline -p tracing-subscriber --features json \
//!       --test c13_json_span_list_ignores_event_parent
#![cfg(all(feature = "fmt", feature = "json"))]

use std::io;
use std::sync::{Arc, Mutex};
use tracing_subscriber::fmt::format::FmtSpan;
use tracing_subscriber::fmt::MakeWriter;

/// A recording sink: every `write` call is stored as one entry.
#[derive(Clone, Default)]
struct Sink(Arc<Mutex<Vec<String>>>);
struct SinkWriter(Arc<Mutex<Vec<String>>>);

impl io::Write for SinkWriter {
    fn write(&mut self, buf: &[u8]) -> io::Result<usize> {
        self.0
            .lock()
            .unwrap()
            .push(String::from_utf8(buf.to_vec()).unwrap());
        Ok(buf.len())
    }
    fn flush(&mut self) -> io::Result<()> {
        Ok(())
    }
}

impl<'a> MakeWriter<'a> for Sink {
    type Writer = SinkWriter;
    fn make_writer(&'a self) -> SinkWriter {
        SinkWriter(self.0.clone())
    }
}

impl Sink {
    fn records(&self) -> Vec<String> {
        self.0.lock().unwrap().clone()
    }
}

/// Names of the spans in the record's `"spans":[...]` array, in order.
/// (The span fields used below contain no `]`, so a flat scan is enough.)
fn span_list(record: &str) -> Vec<String> {
    let start = record
        .find("\"spans\":[")
        .unwrap_or_else(|| panic!("record has no \"spans\" list: {}", record));
    let rest = &record[start + "\"spans\":[".len()..];
    let list = &rest[..rest.find(']').expect("unterminated spans list")];
    let mut names = Vec::new();
    let mut cursor = list;
    while let Some(i) = cursor.find("\"name\":\"") {
        let after = &cursor[i + "\"name\":\"".len()..];
        let end = after.find('"').unwrap();
        names.push(after[..end].to_string());
        cursor = &after[end..];
    }
    names
}

fn record_with_message<'a>(records: &'a [String], msg: &str) -> &'a String {
    let needle = format!("\"message\":\"{}\"", msg);
    records
        .iter()
        .find(|r| r.contains(&needle))
        .unwrap_or_else(|| panic!("no record with message {:?} in {:#?}", msg, records))
}

#[test]
fn event_with_explicit_parent_lists_the_wrong_spans() {
    let sink = Sink::default();
    let collector = tracing_subscriber::fmt()
        .json()
        .without_time()
        .with_writer(sink.clone())
        .finish();

    tracing::collect::with_default(collector, || {
        let a = tracing::info_span!("a", x = 1);
        let b = tracing::info_span!("b", y = 2);
        let _in_b = b.enter();
        // The event's scope is [a]; `b` is merely the thread's current span.
        tracing::info!(parent: &a, "hello");
    });

    let records = sink.records();
    let record = record_with_message(&records, "hello");
    assert_eq!(
        span_list(record),
        vec!["a".to_string()],
        "C13 clause violated: 'the record names every span in scope in nesting order with its \
         fields' -- the event's explicit parent is `a`, so its scope is [a], but the JSON \
         record's span list was taken from the thread's current span `b`.\nrecord: {}",
        record
    );
}

#[test]
fn span_close_record_does_not_list_the_span_scope() {
    let sink = Sink::default();
    let collector = tracing_subscriber::fmt()
        .json()
        .without_time()
        .with_writer(sink.clone())
        .with_span_events(FmtSpan::CLOSE)
        .finish();

    tracing::collect::with_default(collector, || {
        let outer = tracing::info_span!("outer", x = 1);
        let inner = outer.in_scope(|| tracing::info_span!("inner", y = 2));
        // Neither span is entered when `inner` closes. The full format prints
        // `outer{x=1}:inner{y=2}: close` for this lifecycle point.
        drop(inner);
        drop(outer);
    });

    let records = sink.records();
    let record = records
        .iter()
        .find(|r| r.contains("\"message\":\"close\"") && r.contains("\"span\":{\"y\":2"))
        .unwrap_or_else(|| panic!("no close record for `inner` in {:#?}", records));
    assert_eq!(
        span_list(record),
        vec!["outer".to_string(), "inner".to_string()],
        "C13 clause violated: 'for each configured span lifecycle point ... the record names \
         every span in scope in nesting order with its fields' -- the close record of `inner` \
         (child of `outer`) must list [outer, inner], but the JSON span list is computed from \
         the thread's current span, which is unrelated to the closing span.\nrecord: {}",
        record
    );
}
