//! C13 -- "the record names the level, every span in scope in nesting order
//! with its fields, and every event field with its value".
//!
//! A `fmt` subscriber carrying a per-subscriber filter (INFO) on a registry.
//! Span tree: `outer{x=1}` (INFO) > `inner{y=2}` (TRACE). `inner` is disabled
//! for this subscriber, `outer` is not, so for an event inside `inner` the
//! spans in scope *for this subscriber* are: `outer{x=1}`.
//!
//! When the event is contextual (emitted while `inner` is entered) the record
//! does name `outer{x=1}`: the disabled span is skipped and the walk continues
//! with its parent -- the same thing `Scope` and `SpanRef::parent` do. When
//! the very same event names `inner` as its *explicit* parent
//! (`info!(parent: &inner, ..)`), `Context::event_span` gives up as soon as
//! the parent turns out to be disabled, and the record names no span at all.
#![cfg(feature = "fmt")]

use std::io;
use std::sync::{Arc, Mutex};
use tracing_subscriber::filter::LevelFilter;
use tracing_subscriber::fmt::MakeWriter;
use tracing_subscriber::prelude::*;

#[derive(Clone, Default)]
struct Sink(Arc<Mutex<Vec<String>>>);
struct SinkWriter(Arc<Mutex<Vec<String>>>);

impl io::Write for SinkWriter {
    fn write(&mut self, buf: &[u8]) -> io::Result<usize> {
        self.0
            .lock()
            .unwrap()
            .push(String::from_utf8_lossy(buf).into_owned());
        Ok(buf.len())
    }
    fn flush(&mut self) -> io::Result<()> {
        Ok(())
    }
}

impl<'a> MakeWriter<'a> for Sink {
    type Writer = SinkWriter;
    fn make_writer(&'a self) -> Self::Writer {
        SinkWriter(self.0.clone())
    }
}

impl Sink {
    fn record_with(&self, needle: &str) -> String {
        let recs = self.0.lock().unwrap();
        let mut hits = recs.iter().filter(|r| r.contains(needle));
        let hit = hits
            .next()
            .unwrap_or_else(|| panic!("no record containing {:?} in {:?}", needle, *recs))
            .clone();
        assert!(hits.next().is_none(), "more than one record for {:?}", needle);
        hit
    }
}

#[test]
fn explicit_parent_disabled_for_this_subscriber_keeps_enabled_ancestors() {
    let sink = Sink::default();
    let collector = tracing_subscriber::registry().with(
        tracing_subscriber::fmt::subscriber()
            .with_writer(sink.clone())
            .with_ansi(false)
            .without_time()
            .with_filter(LevelFilter::INFO),
    );

    tracing::collect::with_default(collector, || {
        let outer = tracing::info_span!("outer", x = 1);
        let _in_outer = outer.enter();
        let inner = tracing::trace_span!("inner", y = 2);

        // same event, same parent; once contextual, once explicit
        inner.in_scope(|| tracing::info!(n = 1, "contextual-child-of-inner"));
        tracing::info!(parent: &inner, n = 2, "explicit-child-of-inner");
    });

    let contextual = sink.record_with("contextual-child-of-inner");
    let explicit = sink.record_with("explicit-child-of-inner");

    // sanity: the contextual flavour is how the layer itself defines the scope
    assert_eq!(
        contextual,
        " INFO outer{x=1}: c13_explicit_parent_scope: contextual-child-of-inner n=1\n"
    );

    assert_eq!(
        explicit,
        " INFO outer{x=1}: c13_explicit_parent_scope: explicit-child-of-inner n=2\n",
        "C13 violated (clause: the record names every span in scope in nesting order with its \
         fields): the event's explicit parent `inner` is disabled for this fmt subscriber, its \
         grandparent `outer{{x=1}}` is enabled and in scope (the contextual flavour of the same \
         event names it: {:?}), yet the record of the explicitly-parented event names no span",
        contextual,
    );
}
