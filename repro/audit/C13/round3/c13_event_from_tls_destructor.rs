//! C13 -- "For each event (and each configured span lifecycle point) that
//! reaches the formatting layer, it asks the configured writer factory once
//! [...] and hands the resulting writer the whole newline-terminated record in
//! a single write", for events "emitted from 1..8 threads".
//!
//! An event that is emitted while its thread is shutting down -- from the
//! `Drop` impl of a value kept in a `thread_local!` -- does reach
//! `fmt::Subscriber::on_event` (the dispatcher deliberately copes with
//! thread-local teardown). `on_event`, however, reaches for its own
//! per-thread format buffer with `LocalKey::with`. That buffer (a `String`)
//! has a destructor of its own, so when the user's thread-local was
//! initialised *before* the thread's first event, the buffer is already gone
//! when the user's destructor runs (destructors run in reverse order of
//! registration): `with` panics inside a TLS destructor, no record is handed
//! to the writer, and the runtime aborts the whole process.
//!
//! Because the failure is a process abort, the scenario runs in a child
//! process (this same test binary, re-executed with `C13_TLS_CHILD` set) and
//! the parent asserts on the child's exit status and on what the child's
//! writer received. A control run with the opposite initialisation order shows
//! that the harness, and emitting from a TLS destructor as such, work.
#![cfg(feature = "fmt")]

use std::cell::RefCell;
use std::process::Command;

struct LogsOnDrop;

impl Drop for LogsOnDrop {
    fn drop(&mut self) {
        tracing::info!("record emitted from a thread-local destructor");
    }
}

thread_local! {
    static HOLD: RefCell<Option<LogsOnDrop>> = const { RefCell::new(None) };
}

const CHILD_ENV: &str = "C13_TLS_CHILD";

/// The scenario itself. Does nothing unless run as the child process.
#[test]
fn child_scenario() {
    let order = match std::env::var(CHILD_ENV) {
        Ok(order) => order,
        Err(_) => return,
    };

    // records go to stdout, one `write_all` each
    tracing_subscriber::fmt()
        .with_writer(std::io::stdout)
        .with_ansi(false)
        .without_time()
        .init();

    std::thread::spawn(move || {
        if order == "value-first" {
            // the thread-local value exists before the thread logs anything
            HOLD.with(|h| *h.borrow_mut() = Some(LogsOnDrop));
            tracing::info!("first event of the thread");
        } else {
            tracing::info!("first event of the thread");
            HOLD.with(|h| *h.borrow_mut() = Some(LogsOnDrop));
        }
        // thread exits: `HOLD` is destroyed, `LogsOnDrop::drop` emits an event
    })
    .join()
    .unwrap();

    println!("child finished normally");
}

fn run_child(order: &str) -> (bool, String, String) {
    let exe = std::env::current_exe().expect("current_exe");
    let out = Command::new(exe)
        .args(["--exact", "child_scenario", "--nocapture", "--test-threads=1"])
        .env(CHILD_ENV, order)
        .env("RUST_BACKTRACE", "0")
        .output()
        .expect("spawn child");
    (
        out.status.success(),
        String::from_utf8_lossy(&out.stdout).into_owned(),
        String::from_utf8_lossy(&out.stderr).into_owned(),
    )
}

const RECORD: &str = " INFO c13_event_from_tls_destructor: record emitted from a thread-local destructor\n";

/// Control: thread-local value initialised after the thread's first event.
#[test]
fn control_event_first_then_value() {
    let (ok, stdout, stderr) = run_child("event-first");
    assert!(
        ok && stdout.contains(RECORD),
        "control run failed; ok={}\nstdout:\n{}\nstderr:\n{}",
        ok,
        stdout,
        stderr
    );
}

#[test]
fn event_from_thread_local_destructor_is_written() {
    let (ok, stdout, stderr) = run_child("value-first");
    assert!(
        ok && stdout.contains(RECORD),
        "C13 violated (clause: for each event that reaches the formatting layer, it asks the \
         writer factory once and hands the writer the whole newline-terminated record): an \
         event emitted from a thread-local destructor reached fmt::Subscriber::on_event, but \
         no record was written and the process {}.\n\
         expected the child's writer to receive {RECORD:?}\n\
         --- child stdout ---\n{stdout}\n--- child stderr ---\n{stderr}",
        if ok { "exited normally" } else { "was aborted" },
    );
}
