//! C13 -- "Writer combinators (level bounds, predicates, tee, fallback) route
//! each record to exactly the sinks their definition denotes."
//!
//! Writer expression of depth 3 over two recording sinks `a` and `b`:
//!
//!     a.with_max_level(DEBUG).with_min_level(INFO).or_else(b)
//!
//! (the inner two combinators are exactly the "only within a range of levels"
//! example from the `with_min_level` documentation). What it denotes: a record
//! whose level is within INFO..=DEBUG goes to `a`; for every other record the
//! primary writer is disabled, so the fallback `b` gets it. Every record must
//! therefore reach exactly one of the two sinks.
#![cfg(feature = "fmt")]

use std::io;
use std::sync::{Arc, Mutex};
use tracing::Level;
use tracing_subscriber::fmt::writer::MakeWriterExt;
use tracing_subscriber::fmt::MakeWriter;

/// A recording sink: remembers every `write` call it receives.
#[derive(Clone, Default)]
struct Sink(Arc<Mutex<Vec<String>>>);
struct SinkWriter(Arc<Mutex<Vec<String>>>);

impl io::Write for SinkWriter {
    fn write(&mut self, buf: &[u8]) -> io::Result<usize> {
        self.0
            .lock()
            .unwrap()
            .push(String::from_utf8_lossy(buf).into_owned());
        Ok(buf.len())
    }
    fn flush(&mut self) -> io::Result<()> {
        Ok(())
    }
}

impl<'a> MakeWriter<'a> for Sink {
    type Writer = SinkWriter;
    fn make_writer(&'a self) -> Self::Writer {
        SinkWriter(self.0.clone())
    }
}

impl Sink {
    fn count(&self, needle: &str) -> usize {
        self.0
            .lock()
            .unwrap()
            .iter()
            .filter(|rec| rec.contains(needle))
            .count()
    }
    fn dump(&self) -> String {
        self.0.lock().unwrap().concat()
    }
}

fn emit_all_levels() {
    tracing::trace!("rec-trace");
    tracing::debug!("rec-debug");
    tracing::info!("rec-info");
    tracing::warn!("rec-warn");
    tracing::error!("rec-error");
}

#[test]
fn fallback_over_nested_level_bounds_loses_no_record() {
    let a = Sink::default();
    let b = Sink::default();

    let make_writer = a
        .clone()
        .with_max_level(Level::DEBUG)
        .with_min_level(Level::INFO)
        .or_else(b.clone());

    let collector = tracing_subscriber::fmt()
        .with_writer(make_writer)
        .with_max_level(Level::TRACE)
        .with_ansi(false)
        .without_time()
        .finish();

    tracing::collect::with_default(collector, emit_all_levels);

    // (record, sink it denotes)
    let expected = [
        ("rec-trace", "b"),
        ("rec-debug", "a"),
        ("rec-info", "a"),
        ("rec-warn", "b"),
        ("rec-error", "b"),
    ];

    let mut wrong = Vec::new();
    for (rec, sink) in expected {
        let (in_a, in_b) = (a.count(rec), b.count(rec));
        let want = if sink == "a" { (1, 0) } else { (0, 1) };
        if (in_a, in_b) != want {
            wrong.push(format!(
                "{rec}: denoted sink `{sink}`, but written {in_a}x to a and {in_b}x to b"
            ));
        }
    }

    assert!(
        wrong.is_empty(),
        "C13 violated (clause: writer combinators route each record to exactly the sinks \
         their definition denotes -- level bounds + fallback): \
         `a.with_max_level(DEBUG).with_min_level(INFO).or_else(b)` misroutes: {wrong:?}\n\
         sink a:\n{}\nsink b:\n{}",
        a.dump(),
        b.dump(),
    );
}

/// Same shape with a predicate as the outer bound.
#[test]
fn fallback_over_predicate_and_level_bound_loses_no_record() {
    let a = Sink::default();
    let b = Sink::default();

    // `a` takes WARN and ERROR records of this test's target; everything else
    // is for the fallback.
    let make_writer = a
        .clone()
        .with_max_level(Level::WARN)
        .with_filter(|meta| meta.target() == module_path!())
        .or_else(b.clone());

    let collector = tracing_subscriber::fmt()
        .with_writer(make_writer)
        .with_max_level(Level::TRACE)
        .with_ansi(false)
        .without_time()
        .finish();

    tracing::collect::with_default(collector, emit_all_levels);

    let mut lost = Vec::new();
    for rec in ["rec-trace", "rec-debug", "rec-info", "rec-warn", "rec-error"] {
        if a.count(rec) + b.count(rec) != 1 {
            lost.push(format!(
                "{rec}: written {}x to a and {}x to b",
                a.count(rec),
                b.count(rec)
            ));
        }
    }
    assert!(
        lost.is_empty(),
        "C13 violated (clause: writer combinators route each record to exactly the sinks \
         their definition denotes -- predicate + level bound + fallback): \
         `a.with_max_level(WARN).with_filter(p).or_else(b)` routes these records to no sink \
         at all: {lost:?}\nsink a:\n{}\nsink b:\n{}",
        a.dump(),
        b.dump(),
    );
}
