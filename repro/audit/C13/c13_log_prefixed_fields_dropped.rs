//! C13 demonstration: with the (default) `tracing-log` feature, the field visitors
//! of the full, compact and pretty formats silently skip *every* field whose name
//! starts with `log.` -- also on ordinary `tracing` events and spans that did not
//! come from the `log` crate, for which these are perfectly normal user fields.
//!
//! Violated clause: "the record names [...] every span in scope in nesting order
//! with its fields, and every event field with its value".
//!
//! Run with:
//!   cargo test --offline -p tracing-subscriber --test c13_log_prefixed_fields_dropped
#![cfg(all(feature = "fmt", feature = "tracing-log"))]

use std::io;
use std::sync::{Arc, Mutex};
use tracing_subscriber::fmt::MakeWriter;

#[derive(Clone, Default)]
struct Sink(Arc<Mutex<Vec<String>>>);
struct SinkWriter(Arc<Mutex<Vec<String>>>);

impl io::Write for SinkWriter {
    fn write(&mut self, buf: &[u8]) -> io::Result<usize> {
        self.0
            .lock()
            .unwrap()
            .push(String::from_utf8(buf.to_vec()).unwrap());
        Ok(buf.len())
    }
    fn flush(&mut self) -> io::Result<()> {
        Ok(())
    }
}

impl<'a> MakeWriter<'a> for Sink {
    type Writer = SinkWriter;
    fn make_writer(&'a self) -> SinkWriter {
        SinkWriter(self.0.clone())
    }
}

impl Sink {
    fn records(&self) -> Vec<String> {
        self.0.lock().unwrap().clone()
    }
}

fn emit() {
    // An ordinary tracing span and event (nothing to do with the `log` crate)
    // whose author happened to namespace a field under `log.`.
    let span = tracing::info_span!("request", log.stream = "audit-stream", id = 7);
    let _e = span.enter();
    tracing::info!(log.kind = "audit-kind", user = 42, "hello");
}

fn check(format: &str, records: Vec<String>) {
    assert_eq!(records.len(), 1, "{}: expected one record: {:#?}", format, records);
    let record = &records[0];
    // sanity: the neighbouring fields are there
    assert!(record.contains("42"), "{}: {}", format, record);
    assert!(record.contains('7'), "{}: {}", format, record);
    assert!(
        record.contains("audit-kind"),
        "C13 clause violated ({} format): 'the record names every event field with its value' \
         -- the event field `log.kind = \"audit-kind\"` is missing from the record: {:?}",
        format,
        record
    );
    assert!(
        record.contains("audit-stream"),
        "C13 clause violated ({} format): 'every span in scope ... with its fields' -- the \
         span field `log.stream = \"audit-stream\"` is missing from the record: {:?}",
        format,
        record
    );
}

#[test]
fn full_format_drops_log_prefixed_event_field() {
    let sink = Sink::default();
    let collector = tracing_subscriber::fmt()
        .without_time()
        .with_ansi(false)
        .with_writer(sink.clone())
        .finish();
    tracing::collect::with_default(collector, emit);
    check("full", sink.records());
}

#[test]
fn compact_format_drops_log_prefixed_event_field() {
    let sink = Sink::default();
    let collector = tracing_subscriber::fmt()
        .compact()
        .without_time()
        .with_ansi(false)
        .with_writer(sink.clone())
        .finish();
    tracing::collect::with_default(collector, emit);
    check("compact", sink.records());
}

#[cfg(feature = "ansi")]
#[test]
fn pretty_format_drops_log_prefixed_event_field() {
    let sink = Sink::default();
    let collector = tracing_subscriber::fmt()
        .pretty()
        .without_time()
        .with_ansi(false)
        .with_writer(sink.clone())
        .finish();
    tracing::collect::with_default(collector, emit);
    check("pretty", sink.records());
}
