#![cfg(feature = "fmt")]
use std::io;
use std::sync::{Arc, Mutex};
use tracing_subscriber::fmt::MakeWriter;

#[derive(Clone, Default)]
struct Sink(Arc<Mutex<Vec<String>>>);
struct SinkWriter(Arc<Mutex<Vec<String>>>);
impl io::Write for SinkWriter {
    fn write(&mut self, buf: &[u8]) -> io::Result<usize> {
        self.0.lock().unwrap().push(String::from_utf8(buf.to_vec()).unwrap());
        Ok(buf.len())
    }
    fn flush(&mut self) -> io::Result<()> { Ok(()) }
}
impl<'a> MakeWriter<'a> for Sink {
    type Writer = SinkWriter;
    fn make_writer(&'a self) -> SinkWriter { SinkWriter(self.0.clone()) }
}

struct Bye;
impl Drop for Bye {
    fn drop(&mut self) {
        tracing::info!("worker thread shutting down");
    }
}
thread_local! { static BYE: Bye = Bye; }

#[test]
fn event_in_tls_destructor() {
    let sink = Sink::default();
    let c = tracing_subscriber::fmt().without_time().with_ansi(false).with_writer(sink.clone()).finish();
    tracing::collect::set_global_default(c).unwrap();
    std::thread::spawn(|| {
        BYE.with(|_| ());
        tracing::info!("working");
    }).join().unwrap();
    println!("{:?}", sink.0.lock().unwrap());
}
