//! C13 demonstration: `fmt::Subscriber::on_record` (and `on_new_span`) run the
//! user's `Debug` impls while holding the span's `extensions_mut()` write guard.
//! With the default features that guard is a `std::sync::RwLock` guard, so a
//! panicking `Debug` impl -- even one the caller catches -- poisons the lock.
//! From then on every event formatted inside that span panics in
//! `SpanRef::extensions()` (`.expect("Mutex poisoned")`) instead of being written.
//!
//! Violated clause: "for each event that reaches the formatting layer, it asks the
//! configured writer factory once ... and hands the resulting writer the whole
//! newline-terminated record", quantified over "every history in which earlier
//! formatting was aborted by a panicking Debug/Display implementation that the
//! caller caught".
//!
//! Run with:
//!   cargo test --offline -p tracing-subscriber --test c13_record_panic_poisons_span
#![cfg(feature = "fmt")]

use std::io;
use std::panic::{catch_unwind, AssertUnwindSafe};
use std::sync::{Arc, Mutex};
use tracing_subscriber::fmt::MakeWriter;

#[derive(Clone, Default)]
struct Sink(Arc<Mutex<Vec<String>>>);
struct SinkWriter(Arc<Mutex<Vec<String>>>);

impl io::Write for SinkWriter {
    fn write(&mut self, buf: &[u8]) -> io::Result<usize> {
        self.0
            .lock()
            .unwrap()
            .push(String::from_utf8(buf.to_vec()).unwrap());
        Ok(buf.len())
    }
    fn flush(&mut self) -> io::Result<()> {
        Ok(())
    }
}

impl<'a> MakeWriter<'a> for Sink {
    type Writer = SinkWriter;
    fn make_writer(&'a self) -> SinkWriter {
        SinkWriter(self.0.clone())
    }
}

impl Sink {
    fn records(&self) -> Vec<String> {
        self.0.lock().unwrap().clone()
    }
}

struct Boom;
impl std::fmt::Debug for Boom {
    fn fmt(&self, _: &mut std::fmt::Formatter<'_>) -> std::fmt::Result {
        panic!("Boom's Debug impl panics")
    }
}

#[test]
fn event_after_caught_panic_in_span_record_is_still_written() {
    let sink = Sink::default();
    let collector = tracing_subscriber::fmt()
        .without_time()
        .with_ansi(false)
        .with_writer(sink.clone())
        .finish();

    tracing::collect::with_default(collector, || {
        let span = tracing::info_span!("work", attempt = 1, detail = tracing::field::Empty);
        let _entered = span.enter();

        tracing::info!("before");

        // The fmt layer formats the recorded value; its Debug impl panics and
        // the caller catches the panic.
        let aborted = catch_unwind(AssertUnwindSafe(|| {
            span.record("detail", tracing::field::debug(Boom));
        }));
        assert!(aborted.is_err(), "the Debug impl should have panicked");

        // A perfectly ordinary later event in the same span.
        let later = catch_unwind(AssertUnwindSafe(|| {
            tracing::info!(answer = 42, "after");
        }));

        let records = sink.records();
        assert!(
            later.is_ok(),
            "C13 clause violated: 'for each event that reaches the formatting layer it ... hands \
             the writer the whole record', in a history where earlier formatting was aborted by a \
             panicking Debug impl that the caller caught -- emitting the later event panicked \
             inside the fmt layer (poisoned span extensions lock) and nothing was written for \
             it.\nrecords so far: {:#?}",
            records
        );
        assert!(
            records
                .iter()
                .any(|r| r.contains("after") && r.contains("answer=42") && r.ends_with('\n')),
            "C13 clause violated: the later event's record is missing: {:#?}",
            records
        );
    });
}
