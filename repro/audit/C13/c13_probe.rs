#![cfg(all(feature = "fmt", feature = "json"))]
use std::io;
use std::sync::{Arc, Mutex};
use tracing::Level;
use tracing_subscriber::fmt::format::FmtSpan;
use tracing_subscriber::fmt::writer::MakeWriterExt;
use tracing_subscriber::fmt::MakeWriter;
use tracing_subscriber::prelude::*;

#[derive(Clone, Default)]
struct Sink(Arc<Mutex<Vec<Vec<u8>>>>);
struct SinkW(Arc<Mutex<Vec<Vec<u8>>>>);
impl io::Write for SinkW {
    fn write(&mut self, b: &[u8]) -> io::Result<usize> {
        self.0.lock().unwrap().push(b.to_vec());
        Ok(b.len())
    }
    fn flush(&mut self) -> io::Result<()> {
        Ok(())
    }
}
impl<'a> MakeWriter<'a> for Sink {
    type Writer = SinkW;
    fn make_writer(&'a self) -> SinkW {
        SinkW(self.0.clone())
    }
}
impl Sink {
    fn recs(&self) -> Vec<String> {
        self.0
            .lock()
            .unwrap()
            .iter()
            .map(|v| String::from_utf8(v.clone()).unwrap())
            .collect()
    }
}

#[test]
fn json_explicit_parent() {
    let s = Sink::default();
    let c = tracing_subscriber::fmt()
        .json()
        .without_time()
        .with_writer(s.clone())
        .with_span_events(FmtSpan::NEW | FmtSpan::CLOSE)
        .finish();
    tracing::collect::with_default(c, || {
        let a = tracing::info_span!("a", x = 1);
        let b = tracing::info_span!("b", y = 2);
        let _e = b.enter();
        tracing::info!(parent: &a, "hello");
        let c = tracing::info_span!(parent: &a, "c", z = 3);
        drop(c);
    });
    for r in s.recs() {
        print!("{}", r);
    }
}

#[test]
fn log_prefixed() {
    let s = Sink::default();
    let c = tracing_subscriber::fmt()
        .without_time()
        .with_ansi(false)
        .with_writer(s.clone())
        .finish();
    tracing::collect::with_default(c, || {
        let a = tracing::info_span!("a", log.kind = 1, other = 2);
        let _e = a.enter();
        tracing::info!(log.kind = "audit", user = 7, "hello");
    });
    for r in s.recs() {
        print!("{}", r);
    }
}

#[test]
fn nested_optional_or_else() {
    let a = Sink::default();
    let b = Sink::default();
    let mw = a
        .clone()
        .with_max_level(Level::WARN)
        .with_min_level(Level::ERROR)
        .or_else(b.clone());
    let c = tracing_subscriber::fmt()
        .without_time()
        .with_ansi(false)
        .with_writer(mw)
        .finish();
    tracing::collect::with_default(c, || {
        tracing::info!("info");
        tracing::error!("error");
    });
    println!("a={:?} b={:?}", a.recs(), b.recs());
}

struct Boom;
impl std::fmt::Debug for Boom {
    fn fmt(&self, _: &mut std::fmt::Formatter<'_>) -> std::fmt::Result {
        panic!("boom")
    }
}

#[test]
fn panic_two_filtered_layers() {
    let a = Sink::default();
    let b = Sink::default();
    let la = tracing_subscriber::fmt::subscriber()
        .without_time()
        .with_ansi(false)
        .with_writer(a.clone())
        .with_filter(tracing_subscriber::filter::LevelFilter::TRACE);
    let lb = tracing_subscriber::fmt::subscriber()
        .without_time()
        .with_ansi(false)
        .with_writer(b.clone())
        .with_filter(tracing_subscriber::filter::LevelFilter::INFO);
    let c = tracing_subscriber::registry().with(la).with(lb);
    tracing::collect::with_default(c, || {
        let r = std::panic::catch_unwind(std::panic::AssertUnwindSafe(|| {
            tracing::debug!(v = ?Boom, "first");
        }));
        assert!(r.is_err());
        let r = std::panic::catch_unwind(std::panic::AssertUnwindSafe(|| {
            tracing::info!("second");
        }));
        println!("second panicked: {:?}", r.is_err());
        tracing::info!("third");
    });
    println!("a={:?} b={:?}", a.recs(), b.recs());
}

#[test]
fn panic_in_record() {
    let a = Sink::default();
    let c = tracing_subscriber::fmt()
        .without_time()
        .with_ansi(false)
        .with_writer(a.clone())
        .finish();
    tracing::collect::with_default(c, || {
        let sp = tracing::info_span!("s", v = tracing::field::Empty);
        let _e = sp.enter();
        let r = std::panic::catch_unwind(std::panic::AssertUnwindSafe(|| {
            sp.record("v", tracing::field::debug(Boom));
        }));
        assert!(r.is_err());
        let r = std::panic::catch_unwind(std::panic::AssertUnwindSafe(|| {
            tracing::info!("after");
        }));
        println!("after panicked: {:?}", r.is_err());
    });
    println!("a={:?}", a.recs());
}


#[test]
fn json_nan() {
    let s = Sink::default();
    let c = tracing_subscriber::fmt()
        .json()
        .without_time()
        .with_writer(s.clone())
        .finish();
    tracing::collect::with_default(c, || {
        let sp = tracing::info_span!("s", r#type = 1, q = f64::INFINITY);
        let _e = sp.enter();
        tracing::info!(x = f64::NAN, r#type = 3, "hello");
    });
    for r in s.recs() {
        print!("{}", r);
    }
}

#[test]
fn filtered_explicit_parent() {
    let s = Sink::default();
    let l = tracing_subscriber::fmt::subscriber()
        .without_time()
        .with_ansi(false)
        .with_writer(s.clone())
        .with_filter(tracing_subscriber::filter::LevelFilter::INFO);
    let c = tracing_subscriber::registry().with(l);
    tracing::collect::with_default(c, || {
        let g = tracing::info_span!("g", x = 1);
        let p = tracing::debug_span!(parent: &g, "p");
        tracing::info!(parent: &p, "explicit");
        let _a = g.enter();
        let _b = p.enter();
        tracing::info!("contextual");
    });
    for r in s.recs() {
        print!("{}", r);
    }
}
