//! C10 audit demonstration: `record_all!` ignores the names written at the
//! call site and hands values to the collector's visitor under whatever field
//! happens to come next in the span's `FieldSet`.
//!
//! Clauses violated:
//!   * "each field is presented to the collector's visitor ... under its
//!     declared name"
//!   * "recording an undeclared field is ignored"
use std::fmt;
use std::sync::{Arc, Mutex};

use tracing::field::{Field, Visit};
use tracing::span::{Attributes, Id, Record};
use tracing::{Collect, Event, Metadata};

#[derive(Default)]
struct Recorder(Vec<(String, String)>);

impl Visit for Recorder {
    fn record_u64(&mut self, field: &Field, value: u64) {
        self.0
            .push((field.name().to_string(), format!("u64:{}", value)));
    }
    fn record_i64(&mut self, field: &Field, value: i64) {
        self.0
            .push((field.name().to_string(), format!("i64:{}", value)));
    }
    fn record_str(&mut self, field: &Field, value: &str) {
        self.0
            .push((field.name().to_string(), format!("str:{}", value)));
    }
    fn record_debug(&mut self, field: &Field, value: &dyn fmt::Debug) {
        self.0
            .push((field.name().to_string(), format!("dbg:{:?}", value)));
    }
}

#[derive(Clone, Default)]
struct Col {
    records: Arc<Mutex<Vec<(String, String)>>>,
}

impl Collect for Col {
    fn enabled(&self, _: &Metadata<'_>) -> bool {
        true
    }
    fn new_span(&self, _: &Attributes<'_>) -> Id {
        Id::from_u64(1)
    }
    fn record(&self, _: &Id, values: &Record<'_>) {
        let mut v = Recorder::default();
        values.record(&mut v);
        self.records.lock().unwrap().extend(v.0);
    }
    fn record_follows_from(&self, _: &Id, _: &Id) {}
    fn event(&self, _: &Event<'_>) {}
    fn enter(&self, _: &Id) {}
    fn exit(&self, _: &Id) {}
    fn current_span(&self) -> tracing_core::span::Current {
        tracing_core::span::Current::unknown()
    }
}

/// `Span::record("field2", 2)` and `record_all!(span, field2 = 2)` must agree
/// on the name under which the collector's visitor sees the value.
#[test]
fn record_all_presents_value_under_the_name_written_at_the_call_site() {
    let col = Col::default();
    let records = col.records.clone();
    tracing::collect::with_default(col, || {
        let span = tracing::info_span!(
            "s",
            field1 = tracing::field::Empty,
            field2 = tracing::field::Empty,
            field3 = tracing::field::Empty
        );

        // Reference behaviour: the by-name API.
        span.record("field2", 2u64);
        let by_name = std::mem::take(&mut *records.lock().unwrap());
        assert_eq!(by_name, vec![("field2".to_string(), "u64:2".to_string())]);

        // Same thing through the macro.
        tracing::record_all!(span, field2 = 2u64);
        let by_macro = std::mem::take(&mut *records.lock().unwrap());
        assert_eq!(
            by_macro,
            vec![("field2".to_string(), "u64:2".to_string())],
            "C10 violated (\"under its declared name\"): record_all!(span, field2 = 2) \
             was presented to the visitor as {:?}",
            by_macro
        );
    });
}

/// Fields given in a different order than in the span declaration end up
/// swapped.
#[test]
fn record_all_out_of_order_does_not_swap_values() {
    let col = Col::default();
    let records = col.records.clone();
    tracing::collect::with_default(col, || {
        let span = tracing::info_span!(
            "s",
            user = tracing::field::Empty,
            password_len = tracing::field::Empty
        );
        tracing::record_all!(span, password_len = 8u64, user = "alice");
        let mut got = std::mem::take(&mut *records.lock().unwrap());
        got.sort();
        assert_eq!(
            got,
            vec![
                ("password_len".to_string(), "u64:8".to_string()),
                ("user".to_string(), "str:alice".to_string()),
            ],
            "C10 violated (\"under its declared name ... with exactly the supplied value\"): \
             values were attached to the wrong names: {:?}",
            got
        );
    });
}

/// A name the span never declared must be ignored (that is what
/// `Span::record` does); `record_all!` instead records it under the span's
/// first declared field.
#[test]
fn record_all_ignores_undeclared_field() {
    let col = Col::default();
    let records = col.records.clone();
    tracing::collect::with_default(col, || {
        let span = tracing::info_span!("s", declared = tracing::field::Empty);

        span.record("never_declared", 7u64);
        assert!(
            records.lock().unwrap().is_empty(),
            "Span::record of an undeclared field is ignored"
        );

        tracing::record_all!(span, never_declared = 7u64);
        let got = std::mem::take(&mut *records.lock().unwrap());
        assert!(
            got.is_empty(),
            "C10 violated (\"recording an undeclared field is ignored\"): \
             record_all!(span, never_declared = 7) reached the visitor as {:?}",
            got
        );
    });
}
