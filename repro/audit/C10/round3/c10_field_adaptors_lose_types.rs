//! C10, clause "each field is presented to the collector's visitor ... through the
//! visitor method for its type and with exactly the supplied value", for the value
//! types f64 / i128 / u128 / byte slices / error chains, when the collector's
//! visitor is wrapped in one of the public visitor adaptors of
//! `tracing_subscriber::field` (`debug::Alt` = `MakeExt::debug_alt`,
//! `display::Messages` = `MakeExt::display_messages`,
//! `delimited::VisitDelimited` = `MakeExt::delimited`).
//!
//! The adaptors forward only a hand-picked subset of the `Visit` methods
//! (`Alt`/`Messages`: f64, i64, u64, bool, str, debug; `VisitDelimited`: i64,
//! u64, bool, str, debug). Every other typed method falls back to the trait's
//! default, i.e. to the *adaptor's own* `record_debug`, so the wrapped visitor
//! never sees `record_i128` / `record_u128` / `record_bytes` / `record_error`
//! (and, under `VisitDelimited`, `record_f64`): the value arrives as an opaque
//! `&dyn Debug`. With the stock `fmt` field formatter this is visible in the
//! output: the error's source chain is dropped as soon as `.debug_alt()` or
//! `.delimited(..)` is applied.
use std::{
    error::Error,
    fmt,
    sync::{Arc, Mutex},
};
use tracing::{
    collect::{Collect, Interest},
    field::{Field, Visit},
    span, Event, Metadata,
};
use tracing_subscriber::field::{
    debug::Alt, delimited::VisitDelimited, display::Messages, VisitFmt, VisitOutput,
};

/// The collector's real visitor: it cares about the type of every value.
struct Typed {
    seen: Arc<Mutex<Vec<String>>>,
    sink: String,
}

impl Typed {
    fn push(&mut self, field: &Field, method: &str, value: String) {
        self.seen
            .lock()
            .unwrap()
            .push(format!("{}: {}({})", field.name(), method, value));
    }
}

impl Visit for Typed {
    fn record_f64(&mut self, field: &Field, value: f64) {
        self.push(field, "record_f64", format!("{:?}", value))
    }
    fn record_i64(&mut self, field: &Field, value: i64) {
        self.push(field, "record_i64", format!("{:?}", value))
    }
    fn record_u64(&mut self, field: &Field, value: u64) {
        self.push(field, "record_u64", format!("{:?}", value))
    }
    fn record_i128(&mut self, field: &Field, value: i128) {
        self.push(field, "record_i128", format!("{:?}", value))
    }
    fn record_u128(&mut self, field: &Field, value: u128) {
        self.push(field, "record_u128", format!("{:?}", value))
    }
    fn record_bool(&mut self, field: &Field, value: bool) {
        self.push(field, "record_bool", format!("{:?}", value))
    }
    fn record_str(&mut self, field: &Field, value: &str) {
        self.push(field, "record_str", format!("{:?}", value))
    }
    fn record_bytes(&mut self, field: &Field, value: &[u8]) {
        self.push(field, "record_bytes", format!("{:?}", value))
    }
    fn record_error(&mut self, field: &Field, value: &(dyn Error + 'static)) {
        let mut chain = vec![value.to_string()];
        let mut cur = value.source();
        while let Some(e) = cur {
            chain.push(e.to_string());
            cur = e.source();
        }
        self.push(field, "record_error", chain.join(" <- "))
    }
    fn record_debug(&mut self, field: &Field, value: &dyn fmt::Debug) {
        self.push(field, "record_debug", format!("{:?}", value))
    }
}

impl VisitOutput<fmt::Result> for Typed {
    fn finish(self) -> fmt::Result {
        Ok(())
    }
}

impl VisitFmt for Typed {
    fn writer(&mut self) -> &mut dyn fmt::Write {
        &mut self.sink
    }
}

#[derive(Clone, Copy, Debug)]
enum Wrap {
    Bare,
    Alt,
    Messages,
    Delimited,
}

struct Collector {
    wrap: Wrap,
    seen: Arc<Mutex<Vec<String>>>,
}

impl Collect for Collector {
    fn register_callsite(&self, _: &'static Metadata<'static>) -> Interest {
        Interest::always()
    }
    fn enabled(&self, _: &Metadata<'_>) -> bool {
        true
    }
    fn new_span(&self, _: &span::Attributes<'_>) -> span::Id {
        span::Id::from_u64(1)
    }
    fn record(&self, _: &span::Id, _: &span::Record<'_>) {}
    fn record_follows_from(&self, _: &span::Id, _: &span::Id) {}
    fn event(&self, event: &Event<'_>) {
        let typed = Typed {
            seen: self.seen.clone(),
            sink: String::new(),
        };
        match self.wrap {
            Wrap::Bare => {
                let mut v = typed;
                event.record(&mut v);
            }
            Wrap::Alt => {
                let mut v = Alt::new(typed);
                event.record(&mut v);
            }
            Wrap::Messages => {
                let mut v = Messages::new(typed);
                event.record(&mut v);
            }
            Wrap::Delimited => {
                let mut v = VisitDelimited::new(", ", typed);
                event.record(&mut v);
            }
        }
    }
    fn enter(&self, _: &span::Id) {}
    fn exit(&self, _: &span::Id) {}
    fn current_span(&self) -> tracing_core::span::Current {
        tracing_core::span::Current::unknown()
    }
}

#[derive(Debug)]
struct Outer(Inner);
#[derive(Debug)]
struct Inner;
impl fmt::Display for Outer {
    fn fmt(&self, f: &mut fmt::Formatter<'_>) -> fmt::Result {
        f.write_str("outer failed")
    }
}
impl fmt::Display for Inner {
    fn fmt(&self, f: &mut fmt::Formatter<'_>) -> fmt::Result {
        f.write_str("inner cause")
    }
}
impl Error for Inner {}
impl Error for Outer {
    fn source(&self) -> Option<&(dyn Error + 'static)> {
        Some(&self.0)
    }
}

fn emit() {
    let err = Outer(Inner);
    tracing::info!(
        float = f64::NAN,
        big = u128::MAX,
        neg = i128::MIN,
        bytes = &b"\x00\xff"[..],
        err = &err as &(dyn Error + 'static),
        small = 7u8,
        flag = true,
        text = "str",
    );
}

fn seen_through(wrap: Wrap) -> Vec<String> {
    let seen = Arc::new(Mutex::new(Vec::new()));
    let collector = Collector {
        wrap,
        seen: seen.clone(),
    };
    tracing::collect::with_default(collector, emit);
    let v = seen.lock().unwrap().clone();
    v
}

fn expected() -> Vec<String> {
    vec![
        "float: record_f64(NaN)".to_string(),
        format!("big: record_u128({})", u128::MAX),
        format!("neg: record_i128({})", i128::MIN),
        "bytes: record_bytes([0, 255])".to_string(),
        "err: record_error(outer failed <- inner cause)".to_string(),
        "small: record_u64(7)".to_string(),
        "flag: record_bool(true)".to_string(),
        "text: record_str(\"str\")".to_string(),
    ]
}

#[test]
fn bare_visitor_sees_every_type() {
    assert_eq!(seen_through(Wrap::Bare), expected(), "sanity");
}

#[test]
fn alt_adaptor_keeps_the_types() {
    assert_eq!(
        seen_through(Wrap::Alt),
        expected(),
        "C10 'through the visitor method for its type' violated behind field::debug::Alt"
    );
}

#[test]
fn messages_adaptor_keeps_the_types() {
    assert_eq!(
        seen_through(Wrap::Messages),
        expected(),
        "C10 'through the visitor method for its type' violated behind field::display::Messages"
    );
}

#[test]
fn delimited_adaptor_keeps_the_types() {
    assert_eq!(
        seen_through(Wrap::Delimited),
        expected(),
        "C10 'through the visitor method for its type' violated behind field::delimited::VisitDelimited"
    );
}

// ---- the same thing, end to end, with the stock `fmt` collector ----

#[derive(Clone, Default)]
struct Buf(Arc<Mutex<Vec<u8>>>);
impl std::io::Write for Buf {
    fn write(&mut self, b: &[u8]) -> std::io::Result<usize> {
        self.0.lock().unwrap().extend_from_slice(b);
        Ok(b.len())
    }
    fn flush(&mut self) -> std::io::Result<()> {
        Ok(())
    }
}

fn emit_error_only() {
    let err = Outer(Inner);
    tracing::info!(err = &err as &(dyn Error + 'static));
}

#[test]
fn fmt_collector_with_debug_alt_keeps_the_error_chain() {
    use tracing_subscriber::field::MakeExt;
    use tracing_subscriber::fmt::format::DefaultFields;

    let plain = Buf::default();
    let w = plain.clone();
    let c = tracing_subscriber::fmt()
        .with_ansi(false)
        .without_time()
        .with_writer(move || w.clone())
        .finish();
    tracing::collect::with_default(c, emit_error_only);
    let plain = String::from_utf8(plain.0.lock().unwrap().clone()).unwrap();
    assert!(
        plain.contains("inner cause"),
        "sanity: the stock field formatter shows the error chain: {:?}",
        plain
    );

    let alt = Buf::default();
    let w = alt.clone();
    let c = tracing_subscriber::fmt()
        .with_ansi(false)
        .without_time()
        .fmt_fields(DefaultFields::new().debug_alt())
        .with_writer(move || w.clone())
        .finish();
    tracing::collect::with_default(c, emit_error_only);
    let alt = String::from_utf8(alt.0.lock().unwrap().clone()).unwrap();
    assert!(
        alt.contains("inner cause"),
        "C10 'error chains ... through the visitor method for its type' violated: with \
         DefaultFields::new().debug_alt() the formatter's record_error is never called and the \
         error chain is lost.\n  plain: {:?}\n  debug_alt: {:?}",
        plain,
        alt
    );
}
