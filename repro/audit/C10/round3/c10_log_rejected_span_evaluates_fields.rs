//! C10, clause "Field and message expressions are evaluated ... not at all when
//! [the callsite] is disabled by any of the filtering stages", for the span
//! macros built with the `log` feature.
//!
//! No `tracing` collector exists, so every span is disabled on the `tracing`
//! side; the only possible consumer is the `log` logger -- and the logger
//! rejects the record in `Log::enabled` (as `env_logger` does for a target that
//! is filtered out while another target keeps `log::max_level()` high).
//! The event macros ask `logger.enabled(..)` *before* they build the value set
//! (`__tracing_log!`), the span macros only compare `log::max_level()` and then
//! evaluate every field expression; `Span::log` asks the logger afterwards and
//! throws the result away.
//!
//! run with: cargo test --offline -p tracing --features log --test c10_log_rejected_span_evaluates_fields
#![cfg(feature = "log")]

use std::sync::atomic::{AtomicUsize, Ordering};

static ASKED: AtomicUsize = AtomicUsize::new(0);
static LOGGED: AtomicUsize = AtomicUsize::new(0);

/// Keeps the global max level at TRACE (some other target wants everything),
/// but rejects everything coming from this test.
struct Picky;

impl log::Log for Picky {
    fn enabled(&self, _: &log::Metadata<'_>) -> bool {
        ASKED.fetch_add(1, Ordering::SeqCst);
        false
    }
    fn log(&self, _: &log::Record<'_>) {
        LOGGED.fetch_add(1, Ordering::SeqCst);
    }
    fn flush(&self) {}
}

static EVALS: AtomicUsize = AtomicUsize::new(0);

fn bump() -> usize {
    EVALS.fetch_add(1, Ordering::SeqCst)
}

#[test]
fn span_rejected_by_the_logger_evaluates_nothing() {
    log::set_logger(&Picky).unwrap();
    log::set_max_level(log::LevelFilter::Trace);

    // Events: the logger is asked first, nothing is evaluated.
    tracing::info!(field = bump(), "message {}", bump());
    tracing::event!(tracing::Level::WARN, field = %bump());
    assert!(ASKED.load(Ordering::SeqCst) >= 2, "sanity: the logger was asked");
    assert_eq!(
        EVALS.load(Ordering::SeqCst),
        0,
        "sanity: a disabled event that the logger rejects evaluates nothing"
    );

    // Spans: same situation, same filtering stages...
    let span = tracing::info_span!("span", field = bump(), other = ?bump());
    let span2 = tracing::span!(tracing::Level::ERROR, "span2", field = %bump());
    assert!(span.is_disabled() && span2.is_disabled(), "sanity: no collector");
    assert_eq!(
        LOGGED.load(Ordering::SeqCst),
        0,
        "sanity: the logger rejected every record"
    );

    let evaluated = EVALS.load(Ordering::SeqCst);
    assert_eq!(
        evaluated, 0,
        "C10 'disabled ones evaluate nothing' violated: span!/info_span! disabled on the tracing \
         side (no collector) and rejected by the `log` logger's `enabled` (0 records logged) \
         still evaluated {} field expressions; the event macros evaluated 0",
        evaluated
    );
}
