//! C10, clause "Field and message expressions are evaluated ... not at all when
//! [the callsite] is disabled by any of the filtering stages", for the collector
//! kind "disable it statically".
//!
//! The thread that emits is running under `Dispatch::none()` (the `NoCollector`:
//! `register_callsite` answers `Interest::never()`, `enabled` answers `false`),
//! or has no collector at all. Nothing can ever observe the span / event there,
//! `enabled!` says `false` there -- and still every field and message
//! expression is evaluated, because the callsite's cached interest was computed
//! only from the collectors in the registry (a collector living on *another*
//! thread said `always`) and `Dispatch::none()` is never registered, so the
//! `NoCollector` is never asked.
use std::sync::atomic::{AtomicUsize, Ordering};
use tracing::{
    collect::{Collect, Interest},
    dispatch::{self, Dispatch},
    span, Event, Level, Metadata,
};

/// A collector that statically enables everything.
struct Always;

impl Collect for Always {
    fn register_callsite(&self, _: &'static Metadata<'static>) -> Interest {
        Interest::always()
    }
    fn enabled(&self, _: &Metadata<'_>) -> bool {
        true
    }
    fn new_span(&self, _: &span::Attributes<'_>) -> span::Id {
        span::Id::from_u64(1)
    }
    fn record(&self, _: &span::Id, _: &span::Record<'_>) {}
    fn record_follows_from(&self, _: &span::Id, _: &span::Id) {}
    fn event(&self, _: &Event<'_>) {}
    fn enter(&self, _: &span::Id) {}
    fn exit(&self, _: &span::Id) {}
    fn current_span(&self) -> tracing_core::span::Current {
        tracing_core::span::Current::unknown()
    }
}

static EVALS: AtomicUsize = AtomicUsize::new(0);

fn bump() -> usize {
    EVALS.fetch_add(1, Ordering::SeqCst)
}

// One callsite each, shared by both threads.
fn emit_event() {
    tracing::info!(field = bump(), "message {}", bump());
}
fn emit_span() {
    let _span = tracing::info_span!("span", field = bump());
}
fn emit_shorthand() {
    let value = 1u8;
    tracing::error!(?value, other = %bump());
}
fn probe() -> bool {
    tracing::enabled!(Level::ERROR)
}

#[test]
fn thread_under_no_collector_evaluates_nothing() {
    // Somewhere else in the process a collector is interested in everything.
    let always = Dispatch::new(Always);
    let on_other_thread = always.clone();
    std::thread::spawn(move || {
        dispatch::with_default(&on_other_thread, || {
            emit_event();
            emit_span();
            emit_shorthand();
            assert!(probe());
        })
    })
    .join()
    .unwrap();
    assert_eq!(
        EVALS.swap(0, Ordering::SeqCst),
        4,
        "sanity: enabled callsites evaluate every expression exactly once"
    );

    // This thread explicitly runs under the no-op collector, which disables
    // every callsite statically.
    let (enabled_says, evaluated) = dispatch::with_default(&Dispatch::none(), || {
        let enabled_says = probe();
        emit_event();
        emit_span();
        emit_shorthand();
        (enabled_says, EVALS.swap(0, Ordering::SeqCst))
    });
    assert!(
        !enabled_says,
        "sanity: enabled! reports the callsites as disabled under Dispatch::none()"
    );
    assert_eq!(
        evaluated, 0,
        "C10 'disabled ones evaluate nothing' violated: under Dispatch::none() \
         (NoCollector: register_callsite -> never, enabled -> false; enabled! says false) \
         {} field/message expressions were evaluated",
        evaluated
    );
    drop(always);
}

static EVALS2: AtomicUsize = AtomicUsize::new(0);

fn emit_event2() {
    tracing::warn!(field = EVALS2.fetch_add(1, Ordering::SeqCst), "message");
}

#[test]
fn collector_dropped_elsewhere_still_makes_this_thread_evaluate() {
    // A collector existed on another thread, and is gone again.
    std::thread::spawn(|| {
        let always = Dispatch::new(Always);
        dispatch::with_default(&always, emit_event2);
    })
    .join()
    .unwrap();
    assert_eq!(EVALS2.swap(0, Ordering::SeqCst), 1, "sanity");

    // No collector was ever set on this thread, and there is no global default:
    // the event below can not be observed by anyone.
    std::thread::spawn(|| {
        emit_event2();
    })
    .join()
    .unwrap();
    let evaluated = EVALS2.swap(0, Ordering::SeqCst);
    assert_eq!(
        evaluated, 0,
        "C10 'disabled ones evaluate nothing' violated: a thread without any collector \
         evaluated {} field expression(s) of a callsite nobody can observe (stale cached \
         interest of a collector that was already dropped on another thread)",
        evaluated
    );
}
