//! C10 audit demonstration (needs `--features log-always`, or `--features log`
//! for the second test).
//!
//! Clause violated: "Field and message expressions are evaluated ... not at
//! all when [the callsite] is disabled by any of the filtering stages."
//!
//! When `tracing` is built with its `log` support, the *disabled* branch of
//! `span!` (and therefore of all five `*_span!` shorthands) expands to
//!
//! ```ignore
//! let span = __CALLSITE.disabled_span();
//! if_log_enabled! { $lvl, { span.record_all(&valueset!(.., $($fields)*)); }};
//! ```
//!
//! `if_log_enabled!` only looks at `log::STATIC_MAX_LEVEL` (and, without
//! `log-always`, at `dispatch::has_been_set()`); it consults neither
//! `log::max_level()` nor `Log::enabled`. Those are only checked later, inside
//! `Span::log`, after the value set -- i.e. every field expression -- has
//! already been built. So a span that is disabled by the collector *and* for
//! which no `log` record can possibly be emitted (no logger installed,
//! `log::max_level() == Off`) still evaluates all of its field and message
//! expressions. `event!` in the very same configuration evaluates nothing,
//! because `__tracing_log!` checks `log::max_level()` / `Log::enabled` before
//! touching the value set.
#![cfg(feature = "log")]

use std::sync::atomic::{AtomicUsize, Ordering};

use tracing::collect::Interest;
use tracing::span::{Attributes, Id, Record};
use tracing::{Collect, Event, Level, Metadata};

static EVALS: AtomicUsize = AtomicUsize::new(0);

fn expensive() -> u64 {
    EVALS.fetch_add(1, Ordering::SeqCst);
    42
}

/// A collector that disables every callsite, in one of three ways.
struct Disabling {
    how: How,
}

#[derive(Clone, Copy, Debug)]
enum How {
    /// `register_callsite` -> `Interest::never()`
    Never,
    /// `register_callsite` -> `sometimes`, `enabled` -> `false`
    EnabledFalse,
    /// `max_level_hint` -> `OFF` (level cap)
    LevelCap,
}

impl Collect for Disabling {
    fn register_callsite(&self, _: &'static Metadata<'static>) -> Interest {
        match self.how {
            How::Never => Interest::never(),
            _ => Interest::sometimes(),
        }
    }
    fn enabled(&self, _: &Metadata<'_>) -> bool {
        false
    }
    fn max_level_hint(&self) -> Option<tracing::level_filters::LevelFilter> {
        match self.how {
            How::LevelCap => Some(tracing::level_filters::LevelFilter::OFF),
            _ => None,
        }
    }
    fn new_span(&self, _: &Attributes<'_>) -> Id {
        panic!("the span is disabled; new_span must not be called")
    }
    fn record(&self, _: &Id, _: &Record<'_>) {}
    fn record_follows_from(&self, _: &Id, _: &Id) {}
    fn event(&self, _: &Event<'_>) {
        panic!("the event is disabled; event must not be called")
    }
    fn enter(&self, _: &Id) {}
    fn exit(&self, _: &Id) {}
    fn current_span(&self) -> tracing_core::span::Current {
        tracing_core::span::Current::unknown()
    }
}

#[cfg(feature = "log-always")]
#[test]
fn disabled_span_evaluates_nothing_when_log_is_off_too() {
    // No `log` logger is installed in this process: `log::max_level()` is
    // `Off`, so no `log` record can be produced for anything.
    assert_eq!(log::max_level(), log::LevelFilter::Off);

    for how in [How::Never, How::EnabledFalse, How::LevelCap] {
        tracing::collect::with_default(Disabling { how }, || {
            // Control: a disabled *event* evaluates nothing.
            EVALS.store(0, Ordering::SeqCst);
            tracing::info!(answer = expensive(), "message {}", expensive());
            tracing::event!(Level::INFO, answer = expensive());
            assert_eq!(
                EVALS.load(Ordering::SeqCst),
                0,
                "control: disabled events evaluate nothing ({:?})",
                how
            );

            // A disabled *span* must not evaluate anything either.
            EVALS.store(0, Ordering::SeqCst);
            let span = tracing::info_span!("my_span", answer = expensive());
            assert!(span.is_disabled());
            let n_shorthand = EVALS.swap(0, Ordering::SeqCst);

            let span = tracing::span!(
                target: "t",
                parent: None,
                Level::INFO,
                "my_span",
                answer = expensive(),
                "message {}",
                expensive()
            );
            assert!(span.is_disabled());
            let n_full = EVALS.swap(0, Ordering::SeqCst);

            assert_eq!(
                (n_shorthand, n_full),
                (0, 0),
                "C10 violated (\"evaluated ... not at all when it is disabled\"): with the \
                 `log-always` feature, a span disabled via {:?} (and with log::max_level() == Off, \
                 no logger) still evaluated its field/message expressions \
                 {} time(s) for info_span! and {} time(s) for span!(target:, parent:, ..)",
                how,
                n_shorthand,
                n_full
            );
        });
    }
}

/// Same defect with plain `log` (without `log-always`): as long as no
/// collector was ever installed the `log` fallback is considered active, and
/// the span's fields are evaluated although `log` itself is off and `tracing`
/// has no collector at all. Events, again, evaluate nothing.
#[cfg(not(feature = "log-always"))]
#[test]
fn span_without_any_collector_or_logger_evaluates_nothing() {
    assert_eq!(log::max_level(), log::LevelFilter::Off);

    EVALS.store(0, Ordering::SeqCst);
    tracing::info!(answer = expensive(), "message {}", expensive());
    assert_eq!(
        EVALS.load(Ordering::SeqCst),
        0,
        "control: a disabled event evaluates nothing"
    );

    let span = tracing::info_span!("my_span", answer = expensive());
    assert!(span.is_disabled());
    assert_eq!(
        EVALS.load(Ordering::SeqCst),
        0,
        "C10 violated (\"evaluated ... not at all when it is disabled\"): with the `log` \
         feature a disabled span evaluated its field expressions although neither a collector \
         nor a logger could observe them"
    );
}
