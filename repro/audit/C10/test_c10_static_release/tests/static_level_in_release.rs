//! C10 audit demonstration. Run with `--release`.
//!
//! `tracing` is built with the single static filter feature `max_level_info`
//! (see Cargo.toml). `level_filters` documents the `max_level_*` features as
//! "Trace instrumentation at disabled levels will be skipped and will not even
//! be present in the resulting binary", "similar to the `log` crate" (where
//! `max_level_*` applies to every profile and `release_max_level_*` merely
//! overrides it for release builds), and that is how `tracing` 0.1 behaves.
//!
//! In this tree `get_max_level_inner()` first branches on
//! `cfg!(not(debug_assertions))` and, inside that branch, only looks at the
//! `release_max_level_*` features, falling back to `TRACE`. So in a release
//! build `max_level_info` is silently ignored: DEBUG/TRACE callsites that are
//! supposed to be disabled statically are live, reach the collector, and
//! evaluate their field and message expressions.
//!
//! Clause violated: "Field and message expressions are evaluated ... not at
//! all when it is disabled by any of the filtering stages" (quantifier:
//! "collectors that ... disable it statically").
use std::sync::atomic::{AtomicUsize, Ordering};

use tracing::level_filters::{LevelFilter, STATIC_MAX_LEVEL};
use tracing::span::{Attributes, Id, Record};
use tracing::{Collect, Event, Metadata};

static EVALS: AtomicUsize = AtomicUsize::new(0);
static SEEN: AtomicUsize = AtomicUsize::new(0);

fn expensive() -> u64 {
    EVALS.fetch_add(1, Ordering::SeqCst);
    42
}

struct EnableEverything;

impl Collect for EnableEverything {
    fn enabled(&self, _: &Metadata<'_>) -> bool {
        true
    }
    fn new_span(&self, _: &Attributes<'_>) -> Id {
        SEEN.fetch_add(1, Ordering::SeqCst);
        Id::from_u64(1)
    }
    fn record(&self, _: &Id, _: &Record<'_>) {}
    fn record_follows_from(&self, _: &Id, _: &Id) {}
    fn event(&self, _: &Event<'_>) {
        SEEN.fetch_add(1, Ordering::SeqCst);
    }
    fn enter(&self, _: &Id) {}
    fn exit(&self, _: &Id) {}
    fn current_span(&self) -> tracing_core::span::Current {
        tracing_core::span::Current::unknown()
    }
}

#[test]
fn max_level_info_statically_disables_debug_callsites() {
    tracing::collect::with_default(EnableEverything, || {
        tracing::debug!(answer = expensive(), "message {}", expensive());
        tracing::trace!(answer = expensive());
        let _span = tracing::debug_span!("span", answer = expensive());
        let _span = tracing::trace_span!("span", answer = %expensive());
    });

    let profile = if cfg!(debug_assertions) { "debug" } else { "release" };
    assert_eq!(
        (EVALS.load(Ordering::SeqCst), SEEN.load(Ordering::SeqCst)),
        (0, 0),
        "C10 violated (\"disabled ones evaluate nothing\", static filtering stage): tracing is \
         built with feature `max_level_info` only, yet in the {} profile STATIC_MAX_LEVEL is \
         {:?}; DEBUG/TRACE callsites evaluated their field/message expressions {} time(s) and \
         reached the collector {} time(s)",
        profile,
        STATIC_MAX_LEVEL,
        EVALS.load(Ordering::SeqCst),
        SEEN.load(Ordering::SeqCst),
    );
    assert_eq!(STATIC_MAX_LEVEL, LevelFilter::INFO);
}
