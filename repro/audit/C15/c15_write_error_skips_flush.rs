//! C15 demonstration: a failed write of one line makes `Worker::work` return
//! early (`write_all(..)?`) and skip the flush that ends every batch, so the
//! lines written *before* the failing one in the same batch stay unflushed
//! for as long as no further line arrives.
use std::io::{self, Write};
use std::sync::mpsc;
use std::sync::{Arc, Mutex};
use std::time::Duration;
use tracing_appender::non_blocking::NonBlockingBuilder;

#[derive(Default)]
struct State {
    pending: Vec<String>, // written, not flushed (think BufWriter)
    durable: Vec<String>, // flushed
}

struct Gated {
    entered: mpsc::Sender<()>,
    gate: mpsc::Receiver<()>,
    st: Arc<Mutex<State>>,
}

impl Write for Gated {
    fn write(&mut self, buf: &[u8]) -> io::Result<usize> {
        let _ = self.entered.send(());
        let _ = self.gate.recv();
        let s = String::from_utf8_lossy(buf).into_owned();
        if s.starts_with("BAD") {
            return Err(io::Error::new(io::ErrorKind::Other, "write failed"));
        }
        self.st.lock().unwrap().pending.push(s);
        Ok(buf.len())
    }
    fn flush(&mut self) -> io::Result<()> {
        let mut st = self.st.lock().unwrap();
        let p = std::mem::take(&mut st.pending);
        st.durable.extend(p);
        Ok(())
    }
}

fn run(second: &[u8]) -> Vec<String> {
    let (entered_tx, entered_rx) = mpsc::channel();
    let (gate_tx, gate_rx) = mpsc::channel();
    let st = Arc::new(Mutex::new(State::default()));
    let (mut nb, _guard) = NonBlockingBuilder::default()
        .lossy(false)
        .buffered_lines_limit(8)
        .finish(Gated {
            entered: entered_tx,
            gate: gate_rx,
            st: st.clone(),
        });
    nb.write_all(b"A").unwrap();
    entered_rx.recv_timeout(Duration::from_secs(5)).unwrap();
    // worker is inside write(A); queue the second line so both are one batch
    nb.write_all(second).unwrap();
    drop(gate_tx); // writer runs freely
    // the worker goes idle; nothing else is offered
    std::thread::sleep(Duration::from_millis(700));
    let durable = st.lock().unwrap().durable.clone();
    durable
}

#[test]
fn control_without_error_line_a_is_flushed() {
    assert_eq!(run(b"B"), vec!["A".to_string(), "B".to_string()]);
}

#[test]
fn failed_write_of_next_line_leaves_earlier_line_unflushed() {
    let durable = run(b"BAD");
    assert_eq!(
        durable,
        vec!["A".to_string()],
        "C15 clause 'a failed write of one line affects only that line' violated: line A was written \
         successfully, the write of the following line failed, and 700ms after the worker went idle \
         A still has not been flushed (flushed = {:?}); without the failure A is flushed at once (see control test)",
        durable
    );
}
