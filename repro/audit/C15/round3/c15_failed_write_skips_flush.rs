//! C15 demonstration: "A failed write of one line affects only that line."
//!
//! `Worker::work` returns through `?` as soon as one `write_all` fails, which
//! skips the flush that ends every batch.  The lines of the same batch that
//! were written *before* the failing one stay in the underlying writer's
//! buffer; the worker then parks in `recv()` and nothing flushes them until
//! some later line (or the guard drop) happens to come along.
use std::io::{self, Write};
use std::sync::mpsc;
use std::sync::{Arc, Mutex};
use std::thread;
use std::time::{Duration, Instant};
use tracing_appender::non_blocking::NonBlockingBuilder;

#[derive(Default)]
struct Shared {
    /// every `write` call the worker made, in order
    attempts: Vec<String>,
    /// what has been made durable by a `flush`
    flushed: Vec<String>,
    flush_calls: usize,
}

/// A buffering writer (think `BufWriter<File>`): `write` only stores, `flush`
/// publishes.  A line starting with `FAIL` is refused with an I/O error, the
/// line `GATE` blocks until the test opens the gate (so the test controls what
/// is in the queue when the worker drains it).
struct Buffered {
    pending: Vec<String>,
    shared: Arc<Mutex<Shared>>,
    gate: mpsc::Receiver<()>,
}

impl Write for Buffered {
    fn write(&mut self, buf: &[u8]) -> io::Result<usize> {
        let s = String::from_utf8_lossy(buf).to_string();
        self.shared.lock().unwrap().attempts.push(s.clone());
        if s == "GATE" {
            let _ = self.gate.recv();
        }
        if s.starts_with("FAIL") {
            return Err(io::Error::new(io::ErrorKind::Other, "disk says no"));
        }
        self.pending.push(s);
        Ok(buf.len())
    }
    fn flush(&mut self) -> io::Result<()> {
        let mut sh = self.shared.lock().unwrap();
        sh.flush_calls += 1;
        sh.flushed.append(&mut self.pending);
        Ok(())
    }
}

fn wait_for(shared: &Arc<Mutex<Shared>>, what: &str, f: impl Fn(&Shared) -> bool) {
    let end = Instant::now() + Duration::from_secs(5);
    while !f(&shared.lock().unwrap()) {
        assert!(Instant::now() < end, "test harness: timed out waiting for {}", what);
        thread::sleep(Duration::from_millis(5));
    }
}

fn run(second_line: &'static str, lossy: bool) -> (Vec<String>, Vec<String>, usize) {
    let shared = Arc::new(Mutex::new(Shared::default()));
    let (open, gate) = mpsc::channel();
    let writer = Buffered {
        pending: Vec::new(),
        shared: shared.clone(),
        gate,
    };
    let (mut nb, _guard) = NonBlockingBuilder::default()
        .lossy(lossy)
        .buffered_lines_limit(8)
        .finish(writer);

    // The worker blocks inside the write of GATE; A and the second line queue
    // up behind it, so that the three of them form one batch.
    nb.write_all(b"GATE").unwrap();
    wait_for(&shared, "the worker to reach the gate", |s| s.attempts.len() == 1);
    nb.write_all(b"A").unwrap();
    nb.write_all(second_line.as_bytes()).unwrap();
    open.send(()).unwrap();

    // Wait until the worker has handled the whole batch, then give it ample
    // time to do whatever it is going to do while idle.
    wait_for(&shared, "the worker to attempt all three writes", |s| {
        s.attempts.len() == 3
    });
    thread::sleep(Duration::from_millis(500));

    let s = shared.lock().unwrap();
    let res = (s.attempts.clone(), s.flushed.clone(), s.flush_calls);
    drop(s);
    // (the guard is still alive here: nothing has been shut down)
    res
}

#[test]
fn control_without_failure_the_batch_is_flushed() {
    let (attempts, flushed, _) = run("B", false);
    assert_eq!(attempts, ["GATE", "A", "B"]);
    assert_eq!(flushed, ["GATE", "A", "B"]);
}

#[test]
fn failed_write_leaves_the_earlier_lines_of_its_batch_unflushed_nonlossy() {
    let (attempts, flushed, flush_calls) = run("FAIL-B", false);
    assert_eq!(attempts, ["GATE", "A", "FAIL-B"]);
    assert!(
        flushed.contains(&"A".to_string()),
        "C15 clause 'a failed write of one line affects only that line' violated: \
         line A was written successfully, the write of the *next* line failed, and now \
         the worker is idle (queue empty, guard alive) with A still unflushed; \
         flushed = {:?}, flush calls = {}",
        flushed,
        flush_calls
    );
}

#[test]
fn failed_write_leaves_the_earlier_lines_of_its_batch_unflushed_lossy() {
    let (attempts, flushed, flush_calls) = run("FAIL-B", true);
    assert_eq!(attempts, ["GATE", "A", "FAIL-B"]);
    assert!(
        flushed.contains(&"A".to_string()),
        "C15 clause 'a failed write of one line affects only that line' violated (lossy): \
         line A was written successfully, the write of the *next* line failed, and now \
         the worker is idle (queue empty, guard alive) with A still unflushed; \
         flushed = {:?}, flush calls = {}",
        flushed,
        flush_calls
    );
}
