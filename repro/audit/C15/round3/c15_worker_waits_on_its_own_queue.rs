//! C15 demonstration: "in non-lossy mode nothing is dropped and producers wait
//! instead" / "dropping the worker guard writes out and flushes everything
//! accepted before the drop and releases the underlying writer".
//!
//! In non-lossy mode *every* thread that writes through the `NonBlocking`
//! handle blocks in `Sender::send` while the queue is full -- including the
//! worker thread itself, the only consumer of that queue.  An underlying
//! writer that is instrumented with `tracing` (a network sink that reports
//! "connected", any writer built on an instrumented library) emits its event
//! on the worker thread; the global collector formats it and hands it to the
//! same `NonBlocking`; the queue is full; the worker now waits for itself.
//! Nothing is ever written again, the lines accepted earlier stay in the
//! queue, the guard gives up after its timeout and the writer is never
//! released.  The underlying writer is *not* slow here: the gate is opened and
//! never closed again.
use std::io::{self, Write};
use std::sync::atomic::{AtomicBool, Ordering};
use std::sync::mpsc;
use std::sync::{Arc, Mutex};
use std::thread;
use std::time::{Duration, Instant};
use tracing_appender::non_blocking::NonBlockingBuilder;

struct Sink {
    out: Arc<Mutex<Vec<String>>>,
    released: Arc<AtomicBool>,
    connected: bool,
    in_first_write: mpsc::Sender<()>,
    gate: mpsc::Receiver<()>,
}

impl Write for Sink {
    fn write(&mut self, buf: &[u8]) -> io::Result<usize> {
        if !self.connected {
            self.connected = true;
            // pacing only: lets the test fill the queue before we go on
            let _ = self.in_first_write.send(());
            let _ = self.gate.recv();
            // what an instrumented sink does once, on its lazy connect
            tracing::info!(target: "sink", "connection established");
        }
        self.out
            .lock()
            .unwrap()
            .push(String::from_utf8_lossy(buf).trim_end().to_string());
        Ok(buf.len())
    }
    fn flush(&mut self) -> io::Result<()> {
        Ok(())
    }
}

impl Drop for Sink {
    fn drop(&mut self) {
        self.released.store(true, Ordering::SeqCst);
    }
}

#[test]
fn worker_thread_blocks_on_its_own_full_queue() {
    let out = Arc::new(Mutex::new(Vec::new()));
    let released = Arc::new(AtomicBool::new(false));
    let (in_first_write, first_write_started) = mpsc::channel();
    let (open, gate) = mpsc::channel();
    let sink = Sink {
        out: out.clone(),
        released: released.clone(),
        connected: false,
        in_first_write,
        gate,
    };
    let (nb, guard) = NonBlockingBuilder::default()
        .lossy(false)
        .buffered_lines_limit(1)
        .finish(sink);

    let collector = tracing_subscriber::fmt()
        .with_ansi(false)
        .without_time()
        .with_writer(nb)
        .finish();
    tracing::collect::set_global_default(collector).expect("global default");

    // L1 is taken off the queue by the worker, which stops at the gate.
    tracing::info!("L1");
    first_write_started
        .recv_timeout(Duration::from_secs(5))
        .expect("worker reached the sink");
    // L2 is accepted at once: the queue (capacity 1) is empty.
    tracing::info!("L2");
    // From here on the underlying writer is as fast as it can be.
    open.send(()).unwrap();

    let end = Instant::now() + Duration::from_secs(3);
    while out.lock().unwrap().len() < 3 && Instant::now() < end {
        thread::sleep(Duration::from_millis(10));
    }
    let seen_before_drop = out.lock().unwrap().clone();

    // Everything above was accepted before this point.
    let t = Instant::now();
    drop(guard);
    let drop_took = t.elapsed();
    let seen_after_drop = out.lock().unwrap().clone();

    assert!(
        seen_after_drop.iter().any(|l| l.ends_with("L2")) && released.load(Ordering::SeqCst),
        "C15 clause 'in non-lossy mode nothing is dropped and producers wait instead / dropping \
         the guard writes out everything accepted before the drop and releases the writer' \
         violated: the worker thread is itself a producer (the sink emitted one event), found \
         the queue full and now waits forever on the queue only it can empty. \
         written 3s after the gate opened = {:?}; written after the guard was dropped = {:?}; \
         guard drop took {:?}; underlying writer released = {}",
        seen_before_drop,
        seen_after_drop,
        drop_took,
        released.load(Ordering::SeqCst)
    );
}
