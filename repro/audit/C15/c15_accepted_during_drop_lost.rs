//! C15 demonstration: a line that is accepted (Ok returned, not counted as
//! dropped) while the guard is being dropped is queued *behind* the shutdown
//! marker; the worker exits at the marker and the line is discarded together
//! with the receiver: it is neither written nor counted.
use std::io::{self, Write};
use std::sync::mpsc;
use std::sync::{Arc, Mutex};
use std::time::Duration;
use tracing_appender::non_blocking::NonBlockingBuilder;

struct Gated {
    entered: mpsc::Sender<()>,
    gate: mpsc::Receiver<()>,
    out: Arc<Mutex<Vec<String>>>,
}

impl Write for Gated {
    fn write(&mut self, buf: &[u8]) -> io::Result<usize> {
        let _ = self.entered.send(());
        // wait for a token; a closed gate means "run freely"
        let _ = self.gate.recv();
        self.out
            .lock()
            .unwrap()
            .push(String::from_utf8_lossy(buf).into_owned());
        Ok(buf.len())
    }
    fn flush(&mut self) -> io::Result<()> {
        Ok(())
    }
}

fn run(lossy: bool) -> (Vec<String>, usize, Vec<io::Result<()>>) {
    let (entered_tx, entered_rx) = mpsc::channel();
    let (gate_tx, gate_rx) = mpsc::channel();
    let out = Arc::new(Mutex::new(Vec::new()));
    let (mut nb, guard) = NonBlockingBuilder::default()
        .lossy(lossy)
        .buffered_lines_limit(8)
        .finish(Gated {
            entered: entered_tx,
            gate: gate_rx,
            out: out.clone(),
        });
    let counter = nb.error_counter();
    let mut results = Vec::new();

    results.push(nb.write_all(b"L1"));
    // the worker is now inside the underlying write of L1, the queue is empty
    entered_rx
        .recv_timeout(Duration::from_secs(5))
        .expect("worker should start writing L1");

    // drop the guard on another thread: it enqueues the shutdown marker at once
    // and then waits for the worker
    let dropper = std::thread::spawn(move || drop(guard));
    std::thread::sleep(Duration::from_millis(300));

    // queue: [Shutdown], 7 free slots: the line is accepted
    results.push(nb.write_all(b"L2"));

    // let the underlying writer run freely
    drop(gate_tx);
    dropper.join().unwrap();
    // the worker has exited (or will, right after L1); give it ample time
    std::thread::sleep(Duration::from_millis(500));
    let written = out.lock().unwrap().clone();
    (written, counter.dropped_lines(), results)
}

#[test]
fn lossy_written_plus_dropped_equals_offered() {
    let (written, dropped, results) = run(true);
    assert!(results.iter().all(|r| r.is_ok()));
    assert_eq!(
        written.len() + dropped,
        2,
        "C15 clause 'in lossy mode the number written plus the reported dropped count equals the \
         number offered' violated: offered 2 lines (both returned Ok), written = {:?}, dropped_lines() = {}; \
         L2 was accepted behind the shutdown marker and silently discarded",
        written,
        dropped
    );
}

#[test]
fn non_lossy_accepted_line_is_written() {
    let (written, dropped, results) = run(false);
    let accepted = results.iter().filter(|r| r.is_ok()).count();
    assert_eq!(
        written.len(),
        accepted,
        "C15 clause 'every buffer the non-blocking writer accepts is written exactly once / in non-lossy \
         mode nothing is dropped' violated: {} writes returned Ok, but only {:?} reached the underlying \
         writer (dropped_lines() = {}); L2 was accepted behind the shutdown marker and silently discarded",
        accepted,
        written,
        dropped
    );
}
