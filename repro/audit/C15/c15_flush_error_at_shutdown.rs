//! C15 demonstration: an I/O error returned by `flush` in the batch that
//! carries the shutdown marker makes the worker forget that it was asked to
//! shut down (`Worker::work` does `self.writer.flush()?` and thereby discards
//! the `WorkerState::Shutdown` it was about to return).
use std::io::{self, Write};
use std::sync::atomic::{AtomicBool, AtomicUsize, Ordering};
use std::sync::Arc;
use std::time::{Duration, Instant};
use tracing_appender::non_blocking::NonBlockingBuilder;

#[derive(Clone, Default)]
struct Shared {
    written: Arc<AtomicUsize>,
    flushes: Arc<AtomicUsize>,
    fail_next_flush: Arc<AtomicBool>,
    fail_all_flushes: Arc<AtomicBool>,
    released: Arc<AtomicBool>,
}

struct W(Shared);

impl Write for W {
    fn write(&mut self, buf: &[u8]) -> io::Result<usize> {
        self.0.written.fetch_add(1, Ordering::SeqCst);
        Ok(buf.len())
    }
    fn flush(&mut self) -> io::Result<()> {
        self.0.flushes.fetch_add(1, Ordering::SeqCst);
        if self.0.fail_all_flushes.load(Ordering::SeqCst)
            || self.0.fail_next_flush.swap(false, Ordering::SeqCst)
        {
            return Err(io::Error::new(io::ErrorKind::Other, "flush failed"));
        }
        Ok(())
    }
}

impl Drop for W {
    fn drop(&mut self) {
        self.0.released.store(true, Ordering::SeqCst);
    }
}

fn wait_until(mut f: impl FnMut() -> bool, max: Duration) -> bool {
    let start = Instant::now();
    while start.elapsed() < max {
        if f() {
            return true;
        }
        std::thread::sleep(Duration::from_millis(5));
    }
    f()
}

/// One single failing flush (the one of the shutdown batch); the writer is
/// fast, nothing else fails. A `NonBlocking` handle is still alive, as it is
/// when it has been installed in a collector.
#[test]
fn one_failed_flush_at_shutdown_keeps_writer_unreleased() {
    let shared = Shared::default();
    let (mut nb, guard) = NonBlockingBuilder::default()
        .lossy(false)
        .buffered_lines_limit(4)
        .finish(W(shared.clone()));

    nb.write_all(b"line 1\n").unwrap();
    // wait until the worker wrote and flushed the line and is idle again
    assert!(wait_until(
        || shared.written.load(Ordering::SeqCst) == 1 && shared.flushes.load(Ordering::SeqCst) >= 1,
        Duration::from_secs(5)
    ));
    std::thread::sleep(Duration::from_millis(50));

    shared.fail_next_flush.store(true, Ordering::SeqCst);
    let t = Instant::now();
    drop(guard);
    let took = t.elapsed();

    let released = wait_until(|| shared.released.load(Ordering::SeqCst), Duration::from_secs(2));
    // keep the handle alive up to here
    let _ = &nb;
    assert!(
        released,
        "C15 clause 'dropping the worker guard ... releases the underlying writer' violated: \
         one flush returned an I/O error in the shutdown batch, WorkerGuard::drop took {:?} \
         (it timed out on the rendezvous) and 2s later the underlying writer still has not been dropped; \
         the worker is parked in recv() again",
        took
    );
}

/// Every flush fails (e.g. the sink is gone). All `NonBlocking` handles and the
/// guard are dropped: the worker sees `Disconnected`, but the failing flush
/// discards that state too, so the worker spins forever and never lets go of
/// the writer.
#[test]
fn persistently_failing_flush_never_releases_writer() {
    let shared = Shared::default();
    shared.fail_all_flushes.store(true, Ordering::SeqCst);
    let (mut nb, guard) = NonBlockingBuilder::default()
        .lossy(false)
        .buffered_lines_limit(4)
        .finish(W(shared.clone()));
    nb.write_all(b"line 1\n").unwrap();
    assert!(wait_until(
        || shared.written.load(Ordering::SeqCst) == 1,
        Duration::from_secs(5)
    ));
    drop(nb);
    drop(guard);
    let released = wait_until(|| shared.released.load(Ordering::SeqCst), Duration::from_secs(3));
    let f1 = shared.flushes.load(Ordering::SeqCst);
    std::thread::sleep(Duration::from_millis(100));
    let f2 = shared.flushes.load(Ordering::SeqCst);
    assert!(
        released,
        "C15 clause 'dropping the worker guard ... releases the underlying writer' violated: \
         with a flush that keeps failing, guard and all handles dropped, the writer is never dropped; \
         the worker busy-loops calling flush ({} more flush calls in 100ms)",
        f2 - f1
    );
}
