//! C17 demonstration: `#[instrument(skip_all)]` does not skip anything.
//!
//! `InstrumentArgs::parse` (tracing-attributes/src/attr.rs) has no `skip_all`
//! keyword.  `lookahead.peek(kw::skip)` does not match the identifier
//! `skip_all`, so the token falls into the "unrecognized input" arm, which
//! only pushes a fake `deprecated` *warning* and throws the token away.  The
//! function compiles and every argument is recorded on the span -- including
//! the ones the author asked to keep out of it.
#![allow(deprecated)]
use std::fmt;
use std::sync::{Arc, Mutex};
use tracing::collect::with_default;
use tracing::field::{Field, Visit};
use tracing::{span, Collect};
use tracing_attributes::instrument;
use tracing_subscriber::{prelude::*, registry::LookupSpan, subscribe::Context, Subscribe};

#[derive(Clone, Default)]
struct Rec(Arc<Mutex<Vec<(String, Vec<String>)>>>);
struct V(Vec<String>);
impl Visit for V {
    fn record_debug(&mut self, f: &Field, v: &dyn fmt::Debug) {
        self.0.push(format!("{}={:?}", f.name(), v));
    }
}
impl<C: Collect + for<'a> LookupSpan<'a>> Subscribe<C> for Rec {
    fn on_new_span(&self, a: &span::Attributes<'_>, _: &span::Id, _: Context<'_, C>) {
        let mut v = V(Vec::new());
        a.record(&mut v);
        self.0
            .lock()
            .unwrap()
            .push((a.metadata().name().to_string(), v.0));
    }
}

#[instrument(skip_all)]
fn login(user: &str, password: &str) -> usize {
    user.len() + password.len()
}

#[instrument(skip_all, fields(user = user))]
async fn login_async(user: &str, password: &str) -> usize {
    user.len() + password.len()
}

#[test]
fn skip_all_skips_all_arguments() {
    let rec = Rec::default();
    with_default(tracing_subscriber::registry().with(rec.clone()), || {
        assert_eq!(login("alice", "hunter2"), 12);
        assert_eq!(tokio_test::block_on(login_async("alice", "hunter2")), 12);
    });
    let spans = rec.0.lock().unwrap().clone();
    assert_eq!(spans.len(), 2, "one span per call expected, got {:?}", spans);
    assert_eq!(
        spans[0],
        ("login".to_string(), Vec::<String>::new()),
        "C17 violated (clause: 'exactly one span with the configured ... fields (skipped \
         arguments absent)', quantifier item `skip_all`): #[instrument(skip_all)] recorded the \
         arguments anyway"
    );
    assert_eq!(
        spans[1],
        ("login_async".to_string(), vec!["user=\"alice\"".to_string()]),
        "C17 violated (clause: 'exactly one span with the configured ... fields (skipped \
         arguments absent)', quantifier item `skip_all`): #[instrument(skip_all, fields(..))] \
         recorded the skipped arguments anyway"
    );
}
