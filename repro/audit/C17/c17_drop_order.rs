//! C17 demonstration: `#[instrument]` changes the order / the moment in which
//! a function's arguments are dropped, i.e. the instrumented function does NOT
//! have "the same side effects as the identical function without the
//! attribute" -- even with no collector installed at all.
//!
//! Mechanism (tracing-attributes/src/expand.rs, `gen_block`):
//!  * `async fn`: the body is wrapped in an inner `async move #block`, which
//!    captures only the parameters the body mentions.  Those are dropped when
//!    the inner future completes, the others stay in the outer `async fn` and
//!    are dropped afterwards, so the declared (reverse) drop order is lost.
//!  * sync fn with `ret` / `err`: same thing with `(move || #block)()`.
//!  * "async-trait style" `fn f(..) -> Pin<Box<dyn Future>> { ..; Box::pin(async move {..}) }`:
//!    the span (and so the `arg = ?arg` field expressions) is generated *inside*
//!    the async block, which therefore captures every non-skipped parameter;
//!    a parameter that the plain function drops when `f` returns now lives
//!    until the future is dropped.
use std::cell::RefCell;
use std::future::Future;
use std::pin::Pin;
use tracing_attributes::instrument;

thread_local! {
    static LOG: RefCell<Vec<String>> = RefCell::new(Vec::new());
}
fn log(s: impl Into<String>) {
    LOG.with(|l| l.borrow_mut().push(s.into()));
}
fn take() -> Vec<String> {
    LOG.with(|l| std::mem::take(&mut *l.borrow_mut()))
}

#[derive(Debug)]
struct Noisy(&'static str);
impl Drop for Noisy {
    fn drop(&mut self) {
        log(format!("drop({})", self.0));
    }
}

#[test]
fn async_fn_argument_drop_order() {
    async fn plain(a: Noisy, b: Noisy) -> u32 {
        let _ = &a;
        log("body");
        1
    }
    #[instrument]
    async fn instrumented(a: Noisy, b: Noisy) -> u32 {
        let _ = &a;
        log("body");
        1
    }

    // no collector installed
    assert_eq!(tokio_test::block_on(plain(Noisy("a"), Noisy("b"))), 1);
    let expected = take();
    assert_eq!(tokio_test::block_on(instrumented(Noisy("a"), Noisy("b"))), 1);
    let got = take();
    assert_eq!(
        got, expected,
        "C17 violated (clause: 'drops its arguments ... and has the same side effects as the \
         identical function without the attribute, under any collector or none'): \
         #[instrument] async fn drops its arguments in a different order than the plain async fn"
    );
}

#[test]
fn sync_fn_with_ret_argument_drop_order() {
    fn plain(a: Noisy, b: Noisy) -> u32 {
        let _ = &a;
        log("body");
        1
    }
    #[instrument(ret)]
    fn instrumented(a: Noisy, b: Noisy) -> u32 {
        let _ = &a;
        log("body");
        1
    }

    assert_eq!(plain(Noisy("a"), Noisy("b")), 1);
    let expected = take();
    assert_eq!(instrumented(Noisy("a"), Noisy("b")), 1);
    let got = take();
    assert_eq!(
        got, expected,
        "C17 violated (clause: 'drops its arguments ... and has the same side effects as the \
         identical function without the attribute, under any collector or none'): \
         #[instrument(ret)] fn drops its arguments in a different order than the plain fn"
    );
}

#[test]
fn boxed_future_fn_argument_outlives_the_call() {
    fn plain(x: u32, guard: Noisy) -> Pin<Box<dyn Future<Output = u32>>> {
        log("preamble");
        Box::pin(async move {
            log("body");
            x + 1
        })
    }
    #[instrument]
    fn instrumented(x: u32, guard: Noisy) -> Pin<Box<dyn Future<Output = u32>>> {
        log("preamble");
        Box::pin(async move {
            log("body");
            x + 1
        })
    }

    let fut = plain(1, Noisy("guard"));
    log("call returned");
    assert_eq!(tokio_test::block_on(fut), 2);
    let expected = take();

    let fut = instrumented(1, Noisy("guard"));
    log("call returned");
    assert_eq!(tokio_test::block_on(fut), 2);
    let got = take();
    assert_eq!(
        got, expected,
        "C17 violated (clause: 'drops its arguments ... and has the same side effects as the \
         identical function without the attribute, under any collector or none'): \
         for a `Box::pin(async move {{..}})` function #[instrument] moves an argument that the \
         body never uses into the returned future, so it is dropped when the future is dropped \
         instead of when the call returns"
    );
}
