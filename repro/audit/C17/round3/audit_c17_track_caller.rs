//! C17 audit demonstration: `#[instrument(ret)]` / `#[instrument(err)]` on a
//! sync `#[track_caller]` function changes the value the function returns.
//!
//! The sync `ret` / `err` expansion moves the body into an immediately invoked
//! closure (`(move || { body })()`), and closures do not inherit
//! `#[track_caller]`: `Location::caller()` evaluated by the body now names the
//! closure call inside the instrumented function instead of the caller.
//! Plain `#[instrument]` (no `ret`/`err`) keeps the body inline, so the two
//! sibling expansions disagree with each other as well.
use std::panic::Location;
use tracing_attributes::instrument;

#[track_caller]
fn plain() -> &'static Location<'static> {
    Location::caller()
}

#[track_caller]
#[instrument]
fn instrumented_only() -> &'static Location<'static> {
    Location::caller()
}

#[track_caller]
#[instrument(ret)]
fn instrumented_ret() -> &'static Location<'static> {
    Location::caller()
}

#[track_caller]
#[instrument(err)]
fn instrumented_err() -> Result<&'static Location<'static>, String> {
    Ok(Location::caller())
}

// the payload of a panic raised by a `#[track_caller]` helper
#[track_caller]
fn plain_panics() -> u32 {
    panic!("called from {}:{}", Location::caller().file(), Location::caller().line())
}

#[track_caller]
#[instrument(ret)]
fn instrumented_panics() -> u32 {
    panic!("called from {}:{}", Location::caller().file(), Location::caller().line())
}

#[test]
fn no_collector_ret_returns_the_same_value() {
    // no collector at all: "under any collector or none"
    let (a, b, c) = (plain(), instrumented_only(), instrumented_ret()); let here = line!();
    assert_eq!((a.file(), a.line()), (file!(), here));
    assert_eq!(
        (b.file(), b.line()),
        (file!(), here),
        "plain #[instrument] keeps the caller location"
    );
    assert_eq!(
        (c.file(), c.line()),
        (file!(), here),
        "clause `returns the same value`: #[track_caller] #[instrument(ret)] fn returned \
         Location {c} but the identical function without the attribute returns {a}"
    );
}

#[test]
fn with_collector_err_returns_the_same_value() {
    let collector = tracing_subscriber::fmt()
        .with_max_level(tracing::Level::TRACE)
        .with_writer(std::io::sink)
        .finish();
    tracing::collect::with_default(collector, || {
        let (a, c) = (plain(), instrumented_err().unwrap()); let here = line!();
        assert_eq!((a.file(), a.line()), (file!(), here));
        assert_eq!(
            (c.file(), c.line()),
            (file!(), here),
            "clause `returns the same value`: #[track_caller] #[instrument(err)] fn returned \
             Location {c} but the identical function without the attribute returns {a}"
        );
    });
}

#[test]
fn panic_payload_is_the_same() {
    fn payload(f: fn() -> u32) -> String {
        *std::panic::catch_unwind(f)
            .unwrap_err()
            .downcast::<String>()
            .unwrap()
    }
    #[rustfmt::skip]
    let (a, b) = (payload(|| plain_panics()), payload(|| instrumented_panics()));
    assert_eq!(
        a, b,
        "clause `panics with the same payload`: the plain function panicked with {a:?}, \
         the #[instrument(ret)] one with {b:?}"
    );
}
