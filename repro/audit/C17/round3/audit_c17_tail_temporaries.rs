//! C17 audit demonstration: in the plain sync expansion (no `ret`/`err`) a
//! temporary created by the body's tail expression is dropped only after the
//! span has been exited *and closed*, so that part of the body's side effects
//! does not run inside the span.
//!
//! The body block becomes the tail expression of the wrapper block that owns
//! `__tracing_attr_span` / `__tracing_attr_guard`; tail-expression temporaries
//! outlive the locals of every enclosing block whose tail they are (editions
//! <= 2021, which is what this workspace uses), hence they outlive the guard.
//! The sibling expansions (`ret`/`err` closure, `async move` block) drop the
//! same temporary inside the span.
use std::sync::{Arc, Mutex};
use tracing::{span::Id, Collect, Event};
use tracing_attributes::instrument;
use tracing_subscriber::{
    registry::LookupSpan,
    subscribe::{CollectExt, Context, Subscribe},
};

/// Records what the collector sees, in order.
#[derive(Clone, Default)]
struct Rec(Arc<Mutex<Vec<String>>>);

struct MsgVisitor(String);
impl tracing::field::Visit for MsgVisitor {
    fn record_debug(&mut self, f: &tracing::field::Field, v: &dyn std::fmt::Debug) {
        if f.name() == "message" {
            self.0 = format!("{:?}", v);
        }
    }
}

impl<C: Collect + for<'a> LookupSpan<'a>> Subscribe<C> for Rec {
    fn on_event(&self, e: &Event<'_>, ctx: Context<'_, C>) {
        let mut v = MsgVisitor(String::new());
        e.record(&mut v);
        let cur = ctx.event_span(e).map(|s| s.name()).unwrap_or("<no span>");
        self.0.lock().unwrap().push(format!("event {} in {}", v.0, cur));
    }
    fn on_enter(&self, id: &Id, ctx: Context<'_, C>) {
        let n = ctx.span(id).unwrap().name();
        self.0.lock().unwrap().push(format!("enter {}", n));
    }
    fn on_exit(&self, id: &Id, ctx: Context<'_, C>) {
        let n = ctx.span(id).unwrap().name();
        self.0.lock().unwrap().push(format!("exit {}", n));
    }
    fn on_close(&self, id: Id, ctx: Context<'_, C>) {
        let n = ctx.span(&id).unwrap().name();
        self.0.lock().unwrap().push(format!("close {}", n));
    }
}

/// Something like a pool / lock guard that reports when it is released.
struct Lease(&'static str);
impl Lease {
    fn value(&self) -> u32 {
        7
    }
}
impl Drop for Lease {
    fn drop(&mut self) {
        tracing::info!("released {}", self.0);
    }
}

#[instrument]
fn plain_sync() -> u32 {
    let _local = Lease("local");
    Lease("tail-temporary").value()
}

#[instrument(ret)]
fn ret_sync() -> u32 {
    let _local = Lease("local");
    Lease("tail-temporary").value()
}

#[instrument]
async fn plain_async() -> u32 {
    let _local = Lease("local");
    Lease("tail-temporary").value()
}

fn run(f: impl FnOnce() -> u32) -> Vec<String> {
    let rec = Rec::default();
    let collector = tracing_subscriber::registry().with(rec.clone());
    let out = tracing::collect::with_default(collector, f);
    assert_eq!(out, 7);
    let log = rec.0.lock().unwrap().clone();
    log
}

#[test]
fn sibling_expansions_release_the_temporary_inside_the_span() {
    // control: the `ret` closure and the async expansion are fine
    let log = run(ret_sync);
    assert!(
        log.contains(&"event released tail-temporary in ret_sync".to_string()),
        "{:#?}",
        log
    );
    let log = run(|| tracing_test::block_on_future(plain_async()));
    assert!(
        log.contains(&"event released tail-temporary in plain_async".to_string()),
        "{:#?}",
        log
    );
}

#[test]
fn plain_sync_body_runs_entirely_inside_the_span() {
    let log = run(plain_sync);
    assert!(
        log.contains(&"event released local in plain_sync".to_string()),
        "{:#?}",
        log
    );
    assert!(
        log.contains(&"event released tail-temporary in plain_sync".to_string()),
        "clause `the body runs inside that span`: the drop of the body's tail-expression \
         temporary ran after the span was exited and closed; collector saw {:#?}",
        log
    );
}
