//! C17 audit demonstration (tracing built with its `log` feature, no collector):
//! a sync `#[instrument]` function's body runs between the span's `-> name` /
//! `<- name` activity records, an async one's polls do not: the async expansion
//! skips `Instrument::instrument` whenever `Span::is_disabled()`, which is also
//! true for the log-only span that `span!` hands out when no collector is set.
use std::future::Future;
use std::pin::Pin;
use std::sync::Mutex;
use std::task::{Context, Poll, RawWaker, RawWakerVTable, Waker};

static LINES: Mutex<Vec<String>> = Mutex::new(Vec::new());

struct Logger;
impl log::Log for Logger {
    fn enabled(&self, _: &log::Metadata<'_>) -> bool {
        true
    }
    fn log(&self, r: &log::Record<'_>) {
        LINES
            .lock()
            .unwrap()
            .push(format!("[{}] {}", r.target(), r.args()));
    }
    fn flush(&self) {}
}

#[tracing::instrument]
fn sync_fn(x: u32) -> u32 {
    log::info!("body of sync_fn");
    x + 1
}

#[tracing::instrument]
async fn async_fn(x: u32) -> u32 {
    log::info!("body of async_fn");
    x + 1
}

fn block_on<F: Future>(mut f: F) -> F::Output {
    fn raw() -> RawWaker {
        fn no(_: *const ()) {}
        fn cl(_: *const ()) -> RawWaker {
            raw()
        }
        static VT: RawWakerVTable = RawWakerVTable::new(cl, no, no, no);
        RawWaker::new(std::ptr::null(), &VT)
    }
    let w = unsafe { Waker::from_raw(raw()) };
    let mut cx = Context::from_waker(&w);
    let mut f = unsafe { Pin::new_unchecked(&mut f) };
    loop {
        if let Poll::Ready(v) = f.as_mut().poll(&mut cx) {
            return v;
        }
    }
}

fn take() -> Vec<String> {
    std::mem::take(&mut *LINES.lock().unwrap())
}

fn inside(lines: &[String], name: &str, body: &str) -> bool {
    let enter = lines.iter().position(|l| l.contains(&format!("-> {};", name)));
    let exit = lines.iter().position(|l| l.contains(&format!("<- {};", name)));
    let body = lines.iter().position(|l| l.contains(body));
    matches!((enter, body, exit), (Some(a), Some(b), Some(c)) if a < b && b < c)
}

#[test]
fn async_body_is_polled_inside_the_log_span() {
    log::set_logger(&Logger).unwrap();
    log::set_max_level(log::LevelFilter::Trace);

    assert_eq!(sync_fn(1), 2);
    let sync_lines = take();
    assert!(
        inside(&sync_lines, "sync_fn", "body of sync_fn"),
        "control: {:#?}",
        sync_lines
    );

    assert_eq!(block_on(async_fn(1)), 2);
    let async_lines = take();
    assert!(
        async_lines.iter().any(|l| l.contains("async_fn;")),
        "the span's creation is logged: {:#?}",
        async_lines
    );
    assert!(
        inside(&async_lines, "async_fn", "body of async_fn"),
        "clause `the body - each poll of it, for async functions - runs inside that span` \
         (no collector, `log` feature): the sync function logged {:#?} but the async \
         function's poll is not bracketed by `-> async_fn` / `<- async_fn`: {:#?}",
        sync_lines,
        async_lines
    );
}
