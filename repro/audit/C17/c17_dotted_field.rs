//! C17 demonstration: a custom field with a dotted name whose first and last
//! segments are equal (`x.x`, `id.id`, `user.name.user`, ...) silently removes
//! the *argument* of that name from the span, although the argument was not
//! skipped and the custom field has a different name.
//!
//! tracing-attributes/src/expand.rs, `gen_block`, the "filter out skipped
//! fields" closure:
//!
//!     fields.0.iter().all(|Field { ref name, .. }| {
//!         let first = name.first();
//!         first != name.last() || !first.iter().any(|name| name == &param)
//!     })
//!
//! `first != name.last()` is meant to say "the name has more than one
//! segment", but it compares the segments' *text*, so `x.x` is treated like the
//! single-segment name `x` and the parameter `x` is dropped from the span.
use std::fmt;
use std::sync::{Arc, Mutex};
use tracing::collect::with_default;
use tracing::field::{Field, Visit};
use tracing::{span, Collect};
use tracing_attributes::instrument;
use tracing_subscriber::{prelude::*, registry::LookupSpan, subscribe::Context, Subscribe};

#[derive(Clone, Default)]
struct Rec(Arc<Mutex<Vec<(String, Vec<String>)>>>);
struct V(Vec<String>);
impl Visit for V {
    fn record_debug(&mut self, f: &Field, v: &dyn fmt::Debug) {
        self.0.push(format!("{}={:?}", f.name(), v));
    }
}
impl<C: Collect + for<'a> LookupSpan<'a>> Subscribe<C> for Rec {
    fn on_new_span(&self, a: &span::Attributes<'_>, _: &span::Id, _: Context<'_, C>) {
        let mut v = V(Vec::new());
        a.record(&mut v);
        self.0
            .lock()
            .unwrap()
            .push((a.metadata().name().to_string(), v.0));
    }
}

// control: a dotted name with different first/last segments keeps the argument
#[instrument(fields(id.kind = "session"))]
fn control(id: u32, other: u32) -> u32 {
    id + other
}

#[instrument(fields(id.id = id * 100))]
fn dotted(id: u32, other: u32) -> u32 {
    id + other
}

#[test]
fn dotted_custom_field_does_not_remove_the_argument() {
    let rec = Rec::default();
    with_default(tracing_subscriber::registry().with(rec.clone()), || {
        assert_eq!(control(1, 2), 3);
        assert_eq!(dotted(1, 2), 3);
    });
    let spans = rec.0.lock().unwrap().clone();
    assert_eq!(
        spans[0],
        (
            "control".to_string(),
            vec![
                "id=1".to_string(),
                "other=2".to_string(),
                "id.kind=\"session\"".to_string()
            ]
        ),
        "control case"
    );
    assert_eq!(
        spans[1],
        (
            "dotted".to_string(),
            vec![
                "id=1".to_string(),
                "other=2".to_string(),
                "id.id=100".to_string()
            ]
        ),
        "C17 violated (clause: 'exactly one span with the configured ... fields (skipped \
         arguments absent)' -- i.e. non-skipped arguments present): the custom field `id.id` \
         made #[instrument] drop the non-skipped argument `id` from the span"
    );
}
