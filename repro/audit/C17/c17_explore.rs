#![allow(dead_code, unused_variables, deprecated)]
use std::cell::RefCell;
use std::fmt;
use std::sync::{
    atomic::{AtomicU64, Ordering},
    Arc, Mutex,
};
use tracing::collect::with_default;
use tracing::field::{Field, Visit};
use tracing::span;
use tracing::{Collect, Event, Metadata};
use tracing_attributes::instrument;

thread_local! {
    static LOG: RefCell<Vec<String>> = RefCell::new(Vec::new());
}
fn log(s: impl Into<String>) {
    LOG.with(|l| l.borrow_mut().push(s.into()));
}
fn take() -> Vec<String> {
    LOG.with(|l| std::mem::take(&mut *l.borrow_mut()))
}

struct Rec;
struct V(String);
impl Visit for V {
    fn record_debug(&mut self, f: &Field, v: &dyn fmt::Debug) {
        self.0.push_str(&format!(" {}={:?}", f.name(), v));
    }
}
use tracing_subscriber::{prelude::*, registry::LookupSpan, subscribe::Context, Subscribe};
impl<C: Collect + for<'a> LookupSpan<'a>> Subscribe<C> for Rec {
    fn on_new_span(&self, a: &span::Attributes<'_>, id: &span::Id, ctx: Context<'_, C>) {
        let mut v = V(String::new());
        a.record(&mut v);
        let parent = if a.is_root() {
            "root".to_string()
        } else if a.is_contextual() {
            format!("ctx{:?}", ctx.lookup_current().map(|s| s.id().into_u64()))
        } else {
            format!("explicit{:?}", a.parent().map(|i| i.into_u64()))
        };
        log(format!(
            "new#{} {} lvl={} tgt={} parent={} fields=[{}] names={:?}",
            id.into_u64(),
            a.metadata().name(),
            a.metadata().level(),
            a.metadata().target(),
            parent,
            v.0,
            a.metadata().fields().iter().map(|f| f.name()).collect::<Vec<_>>()
        ));
    }
    fn on_record(&self, s: &span::Id, r: &span::Record<'_>, _: Context<'_, C>) {
        let mut v = V(String::new());
        r.record(&mut v);
        log(format!("record#{}{}", s.into_u64(), v.0));
    }
    fn on_follows_from(&self, s: &span::Id, f: &span::Id, _: Context<'_, C>) {
        log(format!("follows#{}<-{}", s.into_u64(), f.into_u64()));
    }
    fn on_event(&self, e: &Event<'_>, ctx: Context<'_, C>) {
        let mut v = V(String::new());
        e.record(&mut v);
        log(format!(
            "event lvl={} tgt={} in={:?}{}",
            e.metadata().level(),
            e.metadata().target(),
            ctx.lookup_current().map(|s| s.id().into_u64()),
            v.0
        ));
    }
    fn on_enter(&self, s: &span::Id, _: Context<'_, C>) {
        log(format!("enter#{}", s.into_u64()));
    }
    fn on_exit(&self, s: &span::Id, _: Context<'_, C>) {
        log(format!("exit#{}", s.into_u64()));
    }
    fn on_close(&self, id: span::Id, _: Context<'_, C>) {
        log(format!("close#{}", id.into_u64()));
    }
}
fn rec() -> impl Collect + Send + Sync + 'static {
    tracing_subscriber::registry().with(Rec)
}

#[derive(Debug)]
struct Noisy(&'static str);
impl Drop for Noisy {
    fn drop(&mut self) {
        log(format!("drop({})", self.0));
    }
}

fn show(title: &str) {
    println!("--- {}", title);
    for l in take() {
        println!("    {}", l);
    }
}

#[test]
fn explore_sync() {
    fn plain(a: Noisy, b: Noisy) -> u32 {
        let _ = &a;
        log("body");
        1
    }
    #[instrument]
    fn inst(a: Noisy, b: Noisy) -> u32 {
        let _ = &a;
        log("body");
        1
    }
    #[instrument(ret)]
    fn inst_ret(a: Noisy, b: Noisy) -> u32 {
        let _ = &a;
        log("body");
        1
    }
    #[instrument(err)]
    fn inst_err(a: Noisy, b: Noisy) -> Result<u32, String> {
        let _ = &a;
        log("body");
        Err("x".into())
    }
    with_default(rec(), || {
        plain(Noisy("a"), Noisy("b"));
        show("plain");
        inst(Noisy("a"), Noisy("b"));
        show("inst");
        inst_ret(Noisy("a"), Noisy("b"));
        show("inst_ret");
        let _ = inst_err(Noisy("a"), Noisy("b"));
        show("inst_err");
    });
    plain(Noisy("a"), Noisy("b"));
    show("plain nocoll");
    inst_ret(Noisy("a"), Noisy("b"));
    show("inst_ret nocoll");
}

#[test]
fn explore_fields() {
    #[instrument(fields(x.x = 7))]
    fn dotted(x: u32, y: u32) {}
    #[instrument(skip_all)]
    fn sa(x: u32, y: u32) {}
    #[instrument]
    fn arr([a, b]: [u32; 2], c: u32) {}
    #[instrument]
    fn at(p @ (_, _): (u32, u32)) {}
    #[instrument]
    fn paren((q): u32) {}
    with_default(rec(), || {
        dotted(1, 2);
        show("dotted");
        sa(1, 2);
        show("skip_all");
        arr([1, 2], 3);
        show("arr");
        at((1, 2));
        show("at");
        paren(1);
        show("paren");
    });
}

#[test]
fn explore_async() {
    async fn plain(a: Noisy, b: Noisy) -> u32 {
        let _ = &a;
        log("body");
        1
    }
    #[instrument]
    async fn inst(a: Noisy, b: Noisy) -> u32 {
        let _ = &a;
        log("body");
        1
    }
    #[instrument(ret)]
    async fn inst_ret(a: Noisy, b: Noisy) -> u32 {
        let _ = &a;
        log("body");
        1
    }
    with_default(rec(), || {
        tokio_test::block_on(plain(Noisy("a"), Noisy("b")));
        show("plain");
        tokio_test::block_on(inst(Noisy("a"), Noisy("b")));
        show("inst");
        tokio_test::block_on(inst_ret(Noisy("a"), Noisy("b")));
        show("inst_ret");
    });
    tokio_test::block_on(inst(Noisy("a"), Noisy("b")));
    show("inst nocoll");
}

#[test]
fn explore_misc() {
    use std::future::Future;
    use std::pin::Pin;
    #[instrument]
    fn raw(r#type: u32) {}
    #[instrument(skip(r#type))]
    fn raw_skip(r#type: u32, other: u32) {}
    #[instrument]
    fn boxed(x: u32, n: Noisy) -> Pin<Box<dyn Future<Output = u32>>> {
        log("preamble");
        let x = x * 2;
        Box::pin(async move { log("body"); x + 1 })
    }
    fn boxed_plain(x: u32, n: Noisy) -> Pin<Box<dyn Future<Output = u32>>> {
        log("preamble");
        let x = x * 2;
        Box::pin(async move { log("body"); x + 1 })
    }
    #[instrument(parent = None, follows_from = [p], fields(twice = x * 2), name = "nm", target = "tg", level = "warn", ret, err)]
    fn combo(x: u32, p: &tracing::Span) -> Result<u32, String> { Ok(x) }
    with_default(rec(), || {
        raw(1);
        show("raw");
        raw_skip(1, 2);
        show("raw_skip");
        let f = boxed_plain(1, Noisy("n"));
        log("created");
        tokio_test::block_on(f);
        show("boxed_plain");
        let f = boxed(1, Noisy("n"));
        log("created");
        tokio_test::block_on(f);
        show("boxed");
        let p = tracing::info_span!("p");
        let _ = combo(3, &p);
        show("combo");
    });
}
