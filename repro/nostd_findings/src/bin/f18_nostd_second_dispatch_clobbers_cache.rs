//! F18 (C01, no_std registry): without std only the global default ever receives anything, yet `Dispatch::new(other)`
//! re-evaluates every cached interest and the max level against `other` alone (register_dispatch rebuilds with the
//! dispatcher it was handed). A Dispatch that is merely created after the global default was installed -- e.g. for a
//! second `set_global_default` attempt that fails -- therefore clobbers the caches: callsites the installed collector
//! accepts are cached `never` / the max level drops to OFF, and its events are suppressed.
use core::sync::atomic::{AtomicUsize, Ordering};
use tracing::{collect::{Collect, Interest}, dispatch::{self, Dispatch}, level_filters::LevelFilter, span, Event, Metadata};

struct Count(AtomicUsize);
static COUNT: Count = Count(AtomicUsize::new(0));
impl Collect for Count {
    fn register_callsite(&self, _: &'static Metadata<'static>) -> Interest { Interest::always() }
    fn enabled(&self, _: &Metadata<'_>) -> bool { true }
    fn new_span(&self, _: &span::Attributes<'_>) -> span::Id { span::Id::from_u64(1) }
    fn record(&self, _: &span::Id, _: &span::Record<'_>) {}
    fn record_follows_from(&self, _: &span::Id, _: &span::Id) {}
    fn event(&self, _: &Event<'_>) { self.0.fetch_add(1, Ordering::SeqCst); }
    fn enter(&self, _: &span::Id) {}
    fn exit(&self, _: &span::Id) {}
    fn current_span(&self) -> tracing_core::span::Current { tracing_core::span::Current::unknown() }
}
struct Nothing;
static NOTHING: Nothing = Nothing;
impl Collect for Nothing {
    fn register_callsite(&self, _: &'static Metadata<'static>) -> Interest { Interest::never() }
    fn enabled(&self, _: &Metadata<'_>) -> bool { false }
    fn max_level_hint(&self) -> Option<LevelFilter> { Some(LevelFilter::OFF) }
    fn new_span(&self, _: &span::Attributes<'_>) -> span::Id { span::Id::from_u64(1) }
    fn record(&self, _: &span::Id, _: &span::Record<'_>) {}
    fn record_follows_from(&self, _: &span::Id, _: &span::Id) {}
    fn event(&self, _: &Event<'_>) {}
    fn enter(&self, _: &span::Id) {}
    fn exit(&self, _: &span::Id) {}
    fn current_span(&self) -> tracing_core::span::Current { tracing_core::span::Current::unknown() }
}

fn emit() { tracing::info!("hello"); }

fn main() {
    dispatch::set_global_default(Dispatch::from_static(&COUNT)).unwrap();
    emit();
    let other = Dispatch::from_static(&NOTHING);                 // merely created ...
    assert!(dispatch::set_global_default(other).is_err());      // ... and refused: the global default is still COUNT
    emit();
    let n = COUNT.0.load(Ordering::SeqCst);
    println!("events delivered to the installed collector: {n} (expected 2)");
    assert_eq!(n, 2, "creating another Dispatch changed what the installed collector receives");
}
