//! F15 (C01, no_std registry): a callsite hit for the first time after `Dispatch::new(collector)` but before
//! `set_global_default(dispatch)` is registered against the no-op global collector and caches `never`. Installing the
//! dispatcher does not re-evaluate anything, so the collector never receives that callsite's events although its filter
//! accepts them. (With `std`, `register` folds over the dispatcher list, which already holds the new Dispatch.)
use core::sync::atomic::{AtomicUsize, Ordering};
use tracing::{collect::{Collect, Interest}, dispatch::{self, Dispatch}, span, Event, Metadata};

struct Count(AtomicUsize);
static COUNT: Count = Count(AtomicUsize::new(0));
impl Collect for Count {
    fn register_callsite(&self, _: &'static Metadata<'static>) -> Interest { Interest::always() }
    fn enabled(&self, _: &Metadata<'_>) -> bool { true }
    fn new_span(&self, _: &span::Attributes<'_>) -> span::Id { span::Id::from_u64(1) }
    fn record(&self, _: &span::Id, _: &span::Record<'_>) {}
    fn record_follows_from(&self, _: &span::Id, _: &span::Id) {}
    fn event(&self, _: &Event<'_>) { self.0.fetch_add(1, Ordering::SeqCst); }
    fn enter(&self, _: &span::Id) {}
    fn exit(&self, _: &span::Id) {}
    fn current_span(&self) -> tracing_core::span::Current { tracing_core::span::Current::unknown() }
}

fn emit() { tracing::info!("hello"); }

fn main() {
    let d = Dispatch::from_static(&COUNT);
    emit();                                     // first hit: no global default yet
    dispatch::set_global_default(d).unwrap();
    emit();                                     // the collector accepts everything
    let n = COUNT.0.load(Ordering::SeqCst);
    println!("events delivered after the install: {n} (expected 1)");
    assert_eq!(n, 1, "the cached interest from before the install suppresses a delivery the collector accepts");
}
