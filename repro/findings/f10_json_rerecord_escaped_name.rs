#![cfg(feature = "json")]
use std::io;
use std::sync::{Arc, Mutex};
use tracing_subscriber::fmt::MakeWriter;

#[derive(Clone, Default)]
struct Buf(Arc<Mutex<Vec<u8>>>);
impl io::Write for Buf {
    fn write(&mut self, b: &[u8]) -> io::Result<usize> { self.0.lock().unwrap().extend_from_slice(b); Ok(b.len()) }
    fn flush(&mut self) -> io::Result<()> { Ok(()) }
}
impl<'a> MakeWriter<'a> for Buf { type Writer = Buf; fn make_writer(&'a self) -> Buf { self.clone() } }

#[test]
fn rerecord_on_span_with_escaped_field_name() {
    let buf = Buf::default();
    let collector = tracing_subscriber::fmt().json().with_writer(buf.clone()).finish();
    tracing::collect::with_default(collector, || {
        let span = tracing::info_span!("work", "quo\"te" = 1, later = tracing::field::Empty);
        let _e = span.enter();
        span.record("later", 2);
        tracing::info!("hello");
    });
    let out = String::from_utf8(buf.0.lock().unwrap().clone()).unwrap();
    println!("{}", out);
    let v: serde_json::Value = serde_json::from_str(out.lines().last().unwrap()).unwrap();
    assert_eq!(v["span"]["later"], 2, "value recorded later is lost: {}", out);
    assert_eq!(v["span"]["quo\"te"], 1);
}
