//! F13 (C09.R1): the deprecated but public `Collect::drop_span` / `Dispatch::drop_span` is the one defaulted `Collect`
//! method that `Box<C>`, `Arc<C>` and `fmt::Collector` do not forward. `Layered::drop_span` releases a span reference
//! (it calls `try_close`); behind a `Box`, an `Arc` or the fmt collector the call hits the trait's empty default, so the
//! reference is never released and no layer sees `on_close`.
#![allow(deprecated)]
use std::sync::{atomic::{AtomicUsize, Ordering}, Arc};
use tracing::{span, Collect, Dispatch, Level};
use tracing_subscriber::{prelude::*, registry::LookupSpan, subscribe::Context, Subscribe};

struct Closes(Arc<AtomicUsize>);
impl<C: Collect + for<'a> LookupSpan<'a>> Subscribe<C> for Closes {
    fn on_close(&self, _: span::Id, _: Context<'_, C>) { self.0.fetch_add(1, Ordering::SeqCst); }
}

fn closes_seen(wrap: impl FnOnce(tracing_subscriber::subscribe::Layered<Closes, tracing_subscriber::Registry>) -> Dispatch) -> usize {
    let n = Arc::new(AtomicUsize::new(0));
    let d = wrap(tracing_subscriber::registry().with(Closes(n.clone())));
    let id = tracing::dispatch::with_default(&d, || {
        let s = tracing::span!(Level::INFO, "s");
        let id = s.id().unwrap();
        let extra = d.clone_span(&id);      // a second reference, to be released through drop_span
        drop(s);                            // releases the first
        extra
    });
    d.drop_span(id);                        // releases the last: the span closes
    n.load(Ordering::SeqCst)
}

fn main() {
    let plain = closes_seen(Dispatch::new);
    let boxed = closes_seen(|c| Dispatch::new(Box::new(c)));
    let arced = closes_seen(|c| Dispatch::new(Arc::new(c)));
    println!("on_close seen after drop_span: plain {plain}, Box {boxed}, Arc {arced}");
    assert_eq!((plain, boxed, arced), (1, 1, 1));
}
