//! F46: with a timer that cannot tell the time (`FormatTime::format_time` returns `Err`, as `LocalTime` does when the
//! local offset is indeterminate), the text formatters write `<unknown time>` and keep the record; the JSON formatter
//! `?`-propagated the error, so every event was replaced by an "Unable to format the following event" notice.
//! Exits 0 when the JSON line for the event is written (fixed), 1 when it is lost.
use std::io;
use std::sync::{Arc, Mutex};
use tracing_subscriber::fmt::{format::Writer, time::FormatTime, MakeWriter};

struct NoClock;
impl FormatTime for NoClock {
    fn format_time(&self, _: &mut Writer<'_>) -> std::fmt::Result {
        Err(std::fmt::Error)
    }
}

#[derive(Clone, Default)]
struct Sink(Arc<Mutex<Vec<u8>>>);
impl io::Write for Sink {
    fn write(&mut self, b: &[u8]) -> io::Result<usize> {
        self.0.lock().unwrap().extend_from_slice(b);
        Ok(b.len())
    }
    fn flush(&mut self) -> io::Result<()> {
        Ok(())
    }
}
impl<'a> MakeWriter<'a> for Sink {
    type Writer = Sink;
    fn make_writer(&'a self) -> Sink {
        self.clone()
    }
}

fn main() {
    let sink = Sink::default();
    let collector = tracing_subscriber::fmt()
        .json()
        .with_timer(NoClock)
        .with_writer(sink.clone())
        .log_internal_errors(false)
        .finish();
    tracing::collect::with_default(collector, || tracing::info!(answer = 42, "hello"));
    let out = String::from_utf8(sink.0.lock().unwrap().clone()).unwrap();
    println!("output: {:?}", out);
    if out.contains("\"answer\":42") && out.contains("hello") {
        println!("ok: the record was written despite the failing timer");
    } else {
        println!("DEFECT: the event's JSON record was lost because the timer failed");
        std::process::exit(1);
    }
}
