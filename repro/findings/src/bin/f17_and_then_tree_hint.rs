//! F17 (C08): two per-layer-filtered layers combined with `and_then` and attached to a `Registry` publish only the OUTER
//! layer's level hint: `Layered::new` decides "my inner value is the registry" from the collector type parameter `C`, which
//! is `Registry` for every `Layered` in such a tree, also for the one whose inner value is another layer. With
//! `a.with_filter(DEBUG).and_then(b.with_filter(INFO))` the hint is INFO, the global max level becomes INFO, and `a` never
//! sees the DEBUG events its own filter accepts. Spelled `.with(a.with_filter(DEBUG)).with(b.with_filter(INFO))` it works.
use std::sync::{Arc, Mutex};
use tracing::{Collect, Event};
use tracing_subscriber::{filter::LevelFilter, prelude::*, subscribe::Context, Subscribe};

struct Rec(Arc<Mutex<Vec<String>>>);
impl<C: Collect> Subscribe<C> for Rec {
    fn on_event(&self, e: &Event<'_>, _: Context<'_, C>) { self.0.lock().unwrap().push(e.metadata().level().to_string()); }
}

fn emit() { tracing::debug!("d"); tracing::info!("i"); }

fn main() {
    let (a1, b1) = (Arc::new(Mutex::new(Vec::new())), Arc::new(Mutex::new(Vec::new())));
    let chained = tracing_subscriber::registry()
        .with(Rec(a1.clone()).with_filter(LevelFilter::DEBUG))
        .with(Rec(b1.clone()).with_filter(LevelFilter::INFO));
    let h1 = chained.max_level_hint();
    tracing::collect::with_default(chained, emit);

    let (a2, b2) = (Arc::new(Mutex::new(Vec::new())), Arc::new(Mutex::new(Vec::new())));
    let tree = tracing_subscriber::registry()
        .with(Rec(a2.clone()).with_filter(LevelFilter::DEBUG).and_then(Rec(b2.clone()).with_filter(LevelFilter::INFO)));
    let h2 = tree.max_level_hint();
    tracing::collect::with_default(tree, emit);

    println!("with().with():  hint {:?}  a saw {:?}  b saw {:?}", h1, a1.lock().unwrap(), b1.lock().unwrap());
    println!("with(and_then): hint {:?}  a saw {:?}  b saw {:?}", h2, a2.lock().unwrap(), b2.lock().unwrap());
    assert_eq!(*a1.lock().unwrap(), vec!["DEBUG", "INFO"]);
    assert_eq!(*a2.lock().unwrap(), vec!["DEBUG", "INFO"], "the DEBUG-filtered layer of an and_then tree lost the DEBUG event its filter accepts");
}
