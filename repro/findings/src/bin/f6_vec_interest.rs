//! F6 (C08.R6): `impl Subscribe for Vec<S>` combined its elements' callsite interests by taking the *highest*, while
//! its `enabled` requires *all* elements to agree. A Vec mixing a global filter layer (LevelFilter) with an output
//! layer cached `always` for an INFO callsite that its own `enabled` rejects, and delivered it.
use std::sync::{Arc, Mutex};
use tracing::{Collect, Event};
use tracing_subscriber::{filter::LevelFilter, prelude::*, subscribe::Context, Subscribe};

struct Rec(Arc<Mutex<Vec<String>>>);
impl<C: Collect> Subscribe<C> for Rec {
    fn on_event(&self, e: &Event<'_>, _: Context<'_, C>) { self.0.lock().unwrap().push(e.metadata().level().to_string()); }
}

fn main() {
    let seen = Arc::new(Mutex::new(Vec::new()));
    let layers: Vec<Box<dyn Subscribe<_> + Send + Sync>> = vec![Box::new(LevelFilter::WARN), Box::new(Rec(seen.clone()))];
    let c = tracing_subscriber::registry().with(layers);
    tracing::collect::with_default(c, || {
        tracing::info!("below the WARN threshold of the Vec's filter layer");
        tracing::warn!("at the threshold");
    });
    let got = seen.lock().unwrap().clone();
    println!("recorder inside the Vec saw {:?} (expected [\"WARN\"], as with registry().with(LevelFilter::WARN).with(rec))", got);
    assert_eq!(got, vec!["WARN".to_string()]);
}
