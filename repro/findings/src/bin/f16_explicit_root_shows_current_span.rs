//! F16 (C13): an event with an explicit root (`parent: None`) has no span in scope. The full and compact formatters
//! resolve the event's scope with `FmtContext::event_scope` and print no span; the pretty and JSON formatters spelled the
//! lookup by hand (`event.parent().and_then(span).or_else(lookup_current)`), which cannot tell "explicit root" from
//! "contextual", and name the thread's current span in the record.
use std::io;
use std::sync::{Arc, Mutex};
use tracing_subscriber::fmt::MakeWriter;

#[derive(Clone, Default)]
struct Buf(Arc<Mutex<Vec<u8>>>);
impl io::Write for Buf {
    fn write(&mut self, b: &[u8]) -> io::Result<usize> { self.0.lock().unwrap().extend_from_slice(b); Ok(b.len()) }
    fn flush(&mut self) -> io::Result<()> { Ok(()) }
}
impl<'a> MakeWriter<'a> for Buf { type Writer = Buf; fn make_writer(&'a self) -> Buf { self.clone() } }

fn emit() {
    let s = tracing::info_span!("current_span", secret = 7);
    let _e = s.enter();
    tracing::info!(parent: None, "rootless");
}

fn main() {
    let mut bad = Vec::new();
    for which in ["full", "compact", "pretty", "json"] {
        let buf = Buf::default();
        let b = tracing_subscriber::fmt().with_writer(buf.clone()).with_ansi(false).without_time();
        match which {
            "full" => tracing::collect::with_default(b.finish(), emit),
            "compact" => tracing::collect::with_default(b.compact().finish(), emit),
            "pretty" => tracing::collect::with_default(b.pretty().finish(), emit),
            _ => tracing::collect::with_default(b.json().finish(), emit),
        }
        let out = String::from_utf8(buf.0.lock().unwrap().clone()).unwrap();
        let names = out.contains("secret");
        println!("{which:8} names the span: {names}   {}", out.trim().replace('\n', " | "));
        if names { bad.push(which); }
    }
    assert!(bad.is_empty(), "formatters that put a span into the record of an explicit-root event: {bad:?}");
}
