//! F47: `Registry::exit` gives back the entered reference with `dispatch::get_default(|d| d.try_close(id))`. When that
//! is the span's *last* reference (its handle was dropped while it was entered), the span closes inside that closure;
//! `DataInner::clear` then releases the parent with a nested `dispatch::get_default(Dispatch::clone)`, which -- the
//! thread's default being borrowed by the outer call -- yields `Dispatch::none()`: the parent's reference is "released"
//! on the no-op collector, and a parent whose own handle is already gone never closes.
//! Exits 0 when both spans are reported closed (fixed), 1 when the parent is not.
use std::sync::{Arc, Mutex};
use tracing::{span, Collect, Dispatch};
use tracing_subscriber::{prelude::*, registry::LookupSpan, subscribe::Context, Registry, Subscribe};

#[derive(Clone, Default)]
struct Closed(Arc<Mutex<Vec<&'static str>>>);
impl<C: Collect + for<'a> LookupSpan<'a>> Subscribe<C> for Closed {
    fn on_close(&self, id: span::Id, ctx: Context<'_, C>) {
        if let Some(s) = ctx.span(&id) {
            self.0.lock().unwrap().push(s.name());
        }
    }
}

fn main() {
    let closed = Closed::default();
    let dispatch = Dispatch::new(Registry::default().with(closed.clone()));
    tracing::dispatch::with_default(&dispatch, || {
        let parent = tracing::info_span!("parent");
        let child = tracing::info_span!(parent: &parent, "child");
        drop(parent); // parents dropped before children
        let id = child.id().expect("enabled");
        dispatch.enter(&id);
        drop(child); // handle dropped while entered
        dispatch.exit(&id); // the exit releases the last reference
    });
    let got = closed.0.lock().unwrap().clone();
    println!("closed: {:?}", got);
    if got == ["child", "parent"] {
        println!("ok: the child closed on exit and its parent after it");
    } else {
        println!("DEFECT: expected [\"child\", \"parent\"]");
        std::process::exit(1);
    }
}
