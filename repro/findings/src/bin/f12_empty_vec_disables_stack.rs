//! F12 (C09): an empty `Vec` of layers is documented (and required by C09) to behave as if it were absent, but its
//! `max_level_hint` is `Some(OFF)`; unlike `Option::None`, `Layered::pick_level_hint` has no transparency rule for it,
//! so placed above a layer without a hint it makes the whole stack report `Some(OFF)` and every event is dropped.
use std::sync::{Arc, Mutex};
use tracing::{Collect, Event};
use tracing_subscriber::{prelude::*, subscribe::Context, Subscribe};

struct Rec(Arc<Mutex<Vec<String>>>);
impl<C: Collect> Subscribe<C> for Rec {
    fn on_event(&self, e: &Event<'_>, _: Context<'_, C>) { self.0.lock().unwrap().push(e.metadata().level().to_string()); }
}

fn run(with_empty_vec: bool, vec_outside: bool) -> (Vec<String>, Option<tracing::level_filters::LevelFilter>) {
    let seen = Arc::new(Mutex::new(Vec::new()));
    let hint;
    if !with_empty_vec {
        let c = tracing_subscriber::registry().with(Rec(seen.clone()));
        hint = c.max_level_hint();
        tracing::collect::with_default(c, || tracing::info!("hello"));
    } else if vec_outside {
        let c = tracing_subscriber::registry().with(Rec(seen.clone())).with(Vec::<Box<dyn Subscribe<_> + Send + Sync>>::new());
        hint = c.max_level_hint();
        tracing::collect::with_default(c, || tracing::info!("hello"));
    } else {
        let c = tracing_subscriber::registry().with(Vec::<Box<dyn Subscribe<_> + Send + Sync>>::new()).with(Rec(seen.clone()));
        hint = c.max_level_hint();
        tracing::collect::with_default(c, || tracing::info!("hello"));
    }
    let got = seen.lock().unwrap().clone();
    (got, hint)
}

fn main() {
    let base = run(false, false);
    let outside = run(true, true);
    let inside = run(true, false);
    println!("no Vec:            events {:?} hint {:?}", base.0, base.1);
    println!("empty Vec outside: events {:?} hint {:?}", outside.0, outside.1);
    println!("empty Vec inside:  events {:?} hint {:?}", inside.0, inside.1);
    assert_eq!(base.0, outside.0, "an empty Vec above a recording layer changed what it observes");
    assert_eq!(base.0, inside.0, "an empty Vec below a recording layer changed what it observes");
}
