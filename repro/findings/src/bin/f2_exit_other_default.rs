//! F2 (C05.R5): Registry::exit / DataInner::clear release the registry's own references through
//! dispatch::get_default, i.e. on whatever collector is the thread's default at that moment.
use std::sync::{Arc, Mutex};
use tracing::{dispatch::with_default, Dispatch};
use tracing_subscriber::{prelude::*, registry::LookupSpan, subscribe::Context, Subscribe};

struct Log(&'static str, Arc<Mutex<Vec<String>>>);
impl<C: tracing::Collect + for<'a> LookupSpan<'a>> Subscribe<C> for Log {
    fn on_close(&self, id: tracing::span::Id, ctx: Context<'_, C>) {
        let name = ctx.span(&id).map(|s| s.name()).unwrap_or("?");
        self.1.lock().unwrap().push(format!("{}:close:{}", self.0, name));
    }
}

fn main() {
    let log = Arc::new(Mutex::new(Vec::new()));
    let r1 = Dispatch::new(tracing_subscriber::registry().with(Log("R1", log.clone())));
    let r2 = Dispatch::new(tracing_subscriber::registry().with(Log("R2", log.clone())));
    // an unrelated span of R2 that gets the same slot index / id as R1's span
    let victim = with_default(&r2, || tracing::info_span!("victim"));
    let mine = with_default(&r1, || tracing::info_span!("mine"));
    let entered = with_default(&r1, || mine.clone().entered());
    drop(mine);
    // exit R1's span while R2 is the thread's default
    with_default(&r2, || drop(entered));
    println!("{:?}", log.lock().unwrap());
    let l = log.lock().unwrap().clone();
    assert!(l.contains(&"R1:close:mine".to_string()), "R1's span never closed; log = {:?}", l);
    assert!(!l.contains(&"R2:close:victim".to_string()), "R2's unrelated span was closed; log = {:?}", l);
    drop(victim);
}
