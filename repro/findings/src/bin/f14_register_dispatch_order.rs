//! F14 (C09.R3): every notification reaches the inner layer before the outer one -- except `on_register_dispatch` when the
//! two layers were combined with `and_then` (the `Subscribe for Layered` impl asked the outer one first), so the same two
//! layers learn about their Dispatch in opposite orders depending on how the stack was spelled.
use std::sync::{Arc, Mutex};
use tracing::{Collect, Dispatch};
use tracing_subscriber::{prelude::*, Subscribe};

struct Rec(&'static str, Arc<Mutex<Vec<&'static str>>>);
impl<C: Collect> Subscribe<C> for Rec {
    fn on_register_dispatch(&self, _: &Dispatch) { self.1.lock().unwrap().push(self.0); }
}

fn main() {
    let log = Arc::new(Mutex::new(Vec::new()));
    let _d = Dispatch::new(tracing_subscriber::registry().with(Rec("a", log.clone())).with(Rec("b", log.clone())));
    let chained = std::mem::take(&mut *log.lock().unwrap());
    let _d = Dispatch::new(tracing_subscriber::registry().with(Rec("a", log.clone()).and_then(Rec("b", log.clone()))));
    let tree = std::mem::take(&mut *log.lock().unwrap());
    println!("with(a).with(b): {:?}   with(a.and_then(b)): {:?}", chained, tree);
    assert_eq!(chained, vec!["a", "b"]);
    assert_eq!(tree, vec!["a", "b"], "the inner layer must hear about the dispatcher before the outer one");
}
