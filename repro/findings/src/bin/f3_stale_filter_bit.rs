//! F3 (C07.R5): the per-thread per-filter bitmap is left dirty by (a) an `enabled!` probe that a per-layer filter
//! rejects and (b) an event vetoed by another layer's `event_enabled`; the next event from a callsite whose cached
//! interest is `always` skips `enabled`, reads the stale bit and the filtered layer misses an event it accepts.
use std::sync::{Arc, Mutex};
use tracing::{Collect, Event, Level};
use tracing_subscriber::{filter::LevelFilter, prelude::*, subscribe::Context, Subscribe};

struct Rec(Arc<Mutex<Vec<String>>>);
impl<C: Collect> Subscribe<C> for Rec {
    fn on_event(&self, e: &Event<'_>, _: Context<'_, C>) {
        self.0.lock().unwrap().push(e.metadata().level().to_string());
    }
}
struct VetoWarn;
impl<C: Collect> Subscribe<C> for VetoWarn {
    fn event_enabled(&self, e: &Event<'_>, _: Context<'_, C>) -> bool {
        *e.metadata().level() != Level::WARN
    }
}
fn emit_error() { tracing::error!("an error the INFO-filtered layer accepts"); }

fn main() {
    // (a) probe
    let seen = Arc::new(Mutex::new(Vec::new()));
    // a second layer accepts DEBUG, so the probe's callsite interest is `sometimes` and `enabled` is really asked
    let other = Arc::new(Mutex::new(Vec::new()));
    let c = tracing_subscriber::registry()
        .with(Rec(seen.clone()).with_filter(LevelFilter::INFO))
        .with(Rec(other.clone()).with_filter(LevelFilter::TRACE));
    tracing::collect::with_default(c, || {
        emit_error();                                     // registers the callsite: interest `always`
        let _ = tracing::enabled!(Level::DEBUG);          // probe rejected by the per-layer filter
        emit_error();                                     // must be seen
    });
    let a = seen.lock().unwrap().clone();
    println!("(a) after probe: layer saw {:?} (expected 2 ERROR events)", a);
    // (b) event_enabled veto by another layer
    let seen2 = Arc::new(Mutex::new(Vec::new()));
    let c = tracing_subscriber::registry().with(VetoWarn).with(Rec(seen2.clone()).with_filter(LevelFilter::ERROR));
    tracing::collect::with_default(c, || {
        emit_error();
        tracing::warn!("vetoed by VetoWarn::event_enabled; rejected by the ERROR filter");
        emit_error();
    });
    let b = seen2.lock().unwrap().clone();
    println!("(b) after vetoed event: layer saw {:?} (expected 2 ERROR events)", b);
    assert_eq!(a.len(), 2, "probe left a stale bit");
    assert_eq!(b.len(), 2, "vetoed event left a stale bit");
}
