//! F7 (C13.R2): fmt::Subscriber::on_event clears its thread-local buffer only on the normal path. When a field's
//! Debug impl panics during formatting and the caller catches the panic, the partial record stays in the buffer and
//! is prepended to the next event's record.
use std::sync::{Arc, Mutex};
use tracing_subscriber::fmt::MakeWriter;

#[derive(Clone)]
struct Sink(Arc<Mutex<Vec<Vec<u8>>>>);
impl std::io::Write for Sink {
    fn write(&mut self, b: &[u8]) -> std::io::Result<usize> { self.0.lock().unwrap().push(b.to_vec()); Ok(b.len()) }
    fn flush(&mut self) -> std::io::Result<()> { Ok(()) }
}
impl<'a> MakeWriter<'a> for Sink { type Writer = Sink; fn make_writer(&'a self) -> Sink { self.clone() } }

struct Boom;
impl std::fmt::Debug for Boom { fn fmt(&self, _: &mut std::fmt::Formatter<'_>) -> std::fmt::Result { panic!("boom") } }

fn main() {
    let out = Arc::new(Mutex::new(Vec::new()));
    let c = tracing_subscriber::fmt().with_writer(Sink(out.clone())).without_time().with_ansi(false).finish();
    tracing::collect::with_default(c, || {
        std::panic::set_hook(Box::new(|_| {}));
        let _ = std::panic::catch_unwind(|| tracing::info!(x = ?Boom, "first"));
        let _ = std::panic::take_hook();
        tracing::info!("second");
    });
    let writes: Vec<String> = out.lock().unwrap().iter().map(|w| String::from_utf8_lossy(w).into_owned()).collect();
    println!("{:?}", writes);
    assert_eq!(writes.len(), 1);
    assert!(writes[0].trim_start().starts_with("INFO") && !writes[0].contains("first"), "record is polluted: {:?}", writes[0]);
}
