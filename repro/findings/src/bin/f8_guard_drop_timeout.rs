//! F8 (C15.R5): Drop for WorkerGuard waits at most 100 ms to queue Shutdown and 1 s for the rendezvous. With a slow
//! underlying writer and a full queue the drop returns while accepted lines are still unwritten.
use std::io::Write;
use std::sync::{Arc, Mutex};
use std::time::{Duration, Instant};

#[derive(Clone)]
struct Slow(Arc<Mutex<Vec<String>>>);
impl Write for Slow {
    fn write(&mut self, b: &[u8]) -> std::io::Result<usize> {
        std::thread::sleep(Duration::from_millis(400));
        self.0.lock().unwrap().push(String::from_utf8_lossy(b).into_owned());
        Ok(b.len())
    }
    fn flush(&mut self) -> std::io::Result<()> { Ok(()) }
}

fn rendezvous_arm() -> usize {
    // queue not full: Shutdown is queued at once, but the worker needs longer than the 1 s rendezvous wait
    let out = Arc::new(Mutex::new(Vec::new()));
    let (mut nb, guard) = tracing_appender::non_blocking::NonBlockingBuilder::default()
        .lossy(false).buffered_lines_limit(16).finish(Slow(out.clone()));
    for i in 0..5 { nb.write_all(format!("line{}\n", i).as_bytes()).unwrap(); }
    let t = Instant::now();
    drop(guard);
    let written = out.lock().unwrap().len();
    println!("[rendezvous arm] drop(guard) returned after {:?} with {} of 5 accepted lines written", t.elapsed(), written);
    written
}

fn main() {
    let r = rendezvous_arm();
    let out = Arc::new(Mutex::new(Vec::new()));
    let (mut nb, guard) = tracing_appender::non_blocking::NonBlockingBuilder::default()
        .lossy(false).buffered_lines_limit(1).finish(Slow(out.clone()));
    for i in 0..3 { nb.write_all(format!("line{}\n", i).as_bytes()).unwrap(); }   // all three accepted (write returned Ok)
    let t = Instant::now();
    drop(guard);
    let written = out.lock().unwrap().len();
    println!("[line-channel arm] drop(guard) returned after {:?} with {} of 3 accepted lines written", t.elapsed(), written);
    assert_eq!((r, written), (5, 3), "guard drop returned before accepted lines were written");
}
