use std::sync::{atomic::{AtomicUsize, Ordering}, Arc, mpsc};
use tracing_core::{span, Collect, Dispatch, Event, Metadata, dispatch};
struct Count(Arc<AtomicUsize>);
impl Collect for Count {
    fn enabled(&self, _: &Metadata<'_>) -> bool { true }
    fn new_span(&self, _: &span::Attributes<'_>) -> span::Id { span::Id::from_u64(1) }
    fn record(&self, _: &span::Id, _: &span::Record<'_>) {}
    fn record_follows_from(&self, _: &span::Id, _: &span::Id) {}
    fn event(&self, _: &Event<'_>) { self.0.fetch_add(1, Ordering::SeqCst); }
    fn enter(&self, _: &span::Id) {}
    fn exit(&self, _: &span::Id) {}
    fn current_span(&self) -> span::Current { span::Current::unknown() }
}
fn main() {
    let global = Arc::new(AtomicUsize::new(0));
    let other = Arc::new(AtomicUsize::new(0));
    // another thread holds a scope for the whole run => slow path everywhere
    let (tx, rx) = mpsc::channel::<()>();
    let (tx2, rx2) = mpsc::channel::<()>();
    let o = other.clone();
    let t = std::thread::spawn(move || {
        let _g = dispatch::set_default(&Dispatch::new(Count(o)));
        tx2.send(()).unwrap();
        rx.recv().unwrap();
    });
    rx2.recv().unwrap();
    // this thread merely emits before the global default exists
    tracing::info!("early");
    dispatch::set_global_default(Dispatch::new(Count(global.clone()))).unwrap();
    tracing::info!("late");
    let got = global.load(Ordering::SeqCst);
    tx.send(()).unwrap();
    t.join().unwrap();
    println!("global collector saw {} event(s) (expected 1)", got);
    assert_eq!(got, 1);
}
