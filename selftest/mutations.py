"""Seeded single-instance breakages (and behaviour-preserving rewrites, expect=None) for the checkers."""
MUTATIONS = [
    dict(name="C19 Level<LevelFilter uses <= for lt", check="C19", file="tracing-core/src/metadata.rs",
         old="    fn lt(&self, other: &LevelFilter) -> bool {\n        filter_as_usize(&other.0) < (self.0 as usize)",
         new="    fn lt(&self, other: &LevelFilter) -> bool {\n        filter_as_usize(&other.0) <= (self.0 as usize)",
         expect="C19.R2:<Level as core::cmp::PartialOrd<LevelFilter>>::lt"),
    dict(name="C19 swapped-operand rewrite stays silent", check="C19", file="tracing-core/src/metadata.rs",
         old="    fn le(&self, other: &LevelFilter) -> bool {\n        filter_as_usize(&other.0) <= (self.0 as usize)",
         new="    fn le(&self, other: &LevelFilter) -> bool {\n        (self.0 as usize) >= filter_as_usize(&other.0)",
         expect=None),
    dict(name="C19 FromStr digit table shifted", check="C19", file="tracing-core/src/metadata.rs",
         old="                4 => Some(LevelFilter::DEBUG),", new="                4 => Some(LevelFilter::TRACE),",
         expect="C19.R3:LevelFilter parses 4"),
    dict(name="C09 Box drops try_close forwarding", check="C09", file="tracing-core/src/collect.rs", nth=0,
         old="    #[inline]\n    fn try_close(&self, id: span::Id) -> bool {\n        self.as_ref().try_close(id)\n    }\n\n",
         new="", expect="C09.R1:Collect for alloc::boxed::Box<C>::try_close"),
    dict(name="C19 LevelFilter subscriber enabled uses >", check="C19", file="tracing-subscriber/src/filter/level.rs",
         old="        self >= metadata.level()\n", new="        self > metadata.level()\n", expect="C19.R4:"),
]
