#!/usr/bin/env python3
"""Mutation self-test of the checkers: apply one small edit to a scratch worktree of /repo (outside /repo
and /verif, removed afterwards), run the named check against it via VERIF_REPO, and assert that it reports
the expected instance.  Usage: selftest/run.py [name-substring ...]"""
import json, os, re, shutil, subprocess, sys, tempfile
VERIF = os.path.dirname(os.path.dirname(os.path.abspath(__file__)))
sys.path.insert(0, os.path.join(VERIF, "selftest"))
from mutations import MUTATIONS


def main():
    pats = sys.argv[1:]
    todo = [m for m in MUTATIONS if not pats or any(p in m["name"] for p in pats)]
    wt = tempfile.mkdtemp(prefix="vwt-", dir="/tmp")
    os.rmdir(wt)
    subprocess.run(["git", "-C", "/repo", "worktree", "add", "--detach", "-q", wt, "HEAD"], check=True)
    if os.path.exists("/repo/Cargo.lock") and not os.path.exists(os.path.join(wt, "Cargo.lock")):
        shutil.copy("/repo/Cargo.lock", os.path.join(wt, "Cargo.lock"))   # untracked in /repo; needed offline
    fails = 0
    try:
        for m in todo:
            subprocess.run(["git", "-C", wt, "checkout", "-q", "--", "."], check=True)
            subprocess.run(["git", "-C", wt, "reset", "-q", "--hard"], check=True)
            subprocess.run(["git", "-C", wt, "clean", "-fdq", "-e", "target", "-e", "Cargo.lock"], check=True)
            if "patch" in m:
                if subprocess.run(["git", "-C", wt, "apply", os.path.join(VERIF, "selftest", m["patch"])], capture_output=True).returncode != 0:
                    print("SELFTEST-BROKEN %s: %s no longer applies to /repo" % (m["name"], m["patch"]))
                    fails += 1
                    continue
                src = None
            elif "revert" in m:
                if subprocess.run(["git", "-C", wt, "revert", "--no-commit", m["revert"]], capture_output=True).returncode != 0:
                    subprocess.run(["git", "-C", wt, "revert", "--abort"], capture_output=True)
                    print("SELFTEST-BROKEN %s: commit %s no longer reverts cleanly" % (m["name"], m["revert"]))
                    fails += 1
                    continue
                subprocess.run(["git", "-C", wt, "reset", "-q"], check=True)
                src = None
            else:
                path = os.path.join(wt, m["file"])
                src = open(path).read()
            if src is None:
                pass
            elif False:
                pass
            nth = m.get("nth")
            if src is None:
                pass
            elif (nth is None and src.count(m["old"]) != 1) or (nth is not None and src.count(m["old"]) <= nth):
                print("SELFTEST-BROKEN %s: pattern occurs %d times in %s" % (m["name"], src.count(m["old"]), m["file"]))
                fails += 1
                continue
            if src is None:
                pass
            elif nth is None:
                src = src.replace(m["old"], m["new"])
            else:
                parts = src.split(m["old"])
                src = m["old"].join(parts[:nth + 1]) + m["new"] + m["old"].join(parts[nth + 1:])
            if src is not None:
                open(path, "w").write(src)
            env = dict(os.environ, VERIF_REPO=wt)
            t0 = __import__("time").time() - 1
            rs = [subprocess.run([os.path.join(VERIF, "bin/check"), c], cwd=VERIF, env=env, capture_output=True, text=True)
                  for c in m["check"].split(",")]
            r = rs[0]
            for x in rs[1:]:     # several checks: worst exit code, concatenated output
                if x.returncode != 0:
                    r = x
            out = "".join(x.stdout for x in rs)
            for c in m["check"].split(","):     # the printed report is truncated; the replay file has every violation
                vp = os.path.join(VERIF, ".cache", "evidence-scratch", c + ".violations.json")
                if os.path.exists(vp) and os.path.getmtime(vp) >= t0:
                    out += "\n" + open(vp).read()
            expect = m.get("expect")
            if expect is None:   # behaviour-preserving rewrite: must stay silent
                ok = r.returncode == 0
            else:
                ok = r.returncode == 1 and expect in out
            print("%s %-50s check=%s exit=%d %s" % ("ok  " if ok else "FAIL", m["name"], m["check"], r.returncode,
                                                   "" if ok else ("expected %r" % expect)))
            if not ok:
                fails += 1
                print("\n".join("      " + l for l in (out + r.stderr).splitlines()[-12:]))
    finally:
        subprocess.run(["git", "-C", "/repo", "worktree", "remove", "--force", wt])
        shutil.rmtree(wt, ignore_errors=True)
        # restore evidence of the real tree
    print("selftest: %d mutations, %d failures" % (len(todo), fails))
    sys.exit(1 if fails else 0)


if __name__ == "__main__":
    main()
