#!/usr/bin/env python3
"""Mutation *survey* (not part of any registered check): for every function a property's check reports as analysed and
that returns `()`, make its whole effect conditional -- `if std::thread::panicking() { return; }` as the first statement
-- in a scratch worktree, run the checks of the properties that analyse the function, and list the mutants nobody
notices. An undetected mutant is a lead, not a verdict: some functions are legitimately free to do nothing (pure
logging, caches); the leads are triaged by hand and the confirmed ones become rules + entries in mutations.py.

usage: selftest/survey.py [--op panic-return|negate-if|negate-if-all|drop-stmt] [-j N] [--no-triage] [property ...]
writes .cache/survey-<op>.json; mutants no check notices are then run against the touched crate's own tests, and only
those the suite also lets through are listed as MISSED
"""
import json, os, re, shutil, subprocess, sys, tempfile
from concurrent.futures import ThreadPoolExecutor
VERIF = os.path.dirname(os.path.dirname(os.path.abspath(__file__)))
sys.path.insert(0, VERIF)
from rulekit import Facts   # noqa: E402


def candidates(props):
    F = Facts("default")
    by_fn = {}
    for p in props:
        ev = json.load(open(os.path.join(VERIF, "evidence", p + ".json")))
        for fn in ev["coverage"].get("functions_analysed", []):
            by_fn.setdefault(fn, set()).add(p)
    out = []
    for fn, ps in sorted(by_fn.items()):
        b = F.body(fn)
        if b is None or "{closure" in fn or not b.raw.get("locals") or (OP == "panic-return" and str(b.raw["locals"][0]) != "()"):
            continue
        sp = b.raw["sp"]                      # {"f": file, "l": line, "c": col}
        if b.raw.get("expanded") or not sp.get("f", "").startswith("tracing") or "/src/" not in sp["f"]:
            continue
        m = re.match(r".*:(\d+)-(\d+)$", str(b.raw.get("span", "")))
        c = dict(fn=fn, file=sp["f"], line=int(sp["l"]), end=int(m.group(2)) if m else int(sp["l"]) + 60, props=sorted(ps))
        if OP in ("negate-if-all", "drop-stmt"):
            src = open(os.path.join("/repo", c["file"])).read().split("\n")[c["line"] - 1:c["end"]]
            if OP == "negate-if-all":
                n = sum(1 for l in src if re.match(r"^(\s*)(\}\s*else\s+)?if (?!let\b)(.+) \{\s*$", l) and "cfg!" not in l)
            else:
                n = sum(1 for l in src[1:] if re.match(r"^\s+[A-Za-z_][\w:.&*()\[\]]*\((.*)\);\s*$", l)
                        and not re.match(r"^\s*(let|return|debug_assert|assert|eprintln|println|panic|unreachable)\b", l) and "!" not in l.split("(")[0])
            for k in range(n):
                out.append(dict(c, nth=k))
        else:
            out.append(c)
    return out


OP = "panic-return"


def mutate(wt, c):
    path = os.path.join(wt, c["file"])
    lines = open(path).read().split("\n")
    i = c["line"] - 1
    if OP in ("negate-if", "negate-if-all"):
        # negate one plain `if <cond> {` of the function (not `if let`, not inside a macro invocation line): the first one,
        # or with negate-if-all the c["nth"]-th one (one mutant per `if`)
        end = c.get("end", i + 60)
        seen = 0
        for k in range(i, min(end, len(lines))):
            m = re.match(r"^(\s*)(\}\s*else\s+)?if (?!let\b)(.+) \{\s*$", lines[k])
            if m and "cfg!" not in lines[k]:
                if seen < c.get("nth", 0):
                    seen += 1
                    continue
                lines[k] = "%s%sif !(%s) {" % (m.group(1), m.group(2) or "", m.group(3))
                open(path, "w").write("\n".join(lines))
                c["mutated_line"] = k + 1
                return True
        return False
    if OP == "drop-stmt":
        # delete the c["nth"]-th statement of the form `<recv>.<method>(..);` / `<path>(..);` on one line (a call made only
        # for its effect): an effect the property needs must be demanded by some rule
        end = c.get("end", i + 60)
        seen = 0
        for k in range(i + 1, min(end, len(lines))):
            if re.match(r"^\s+[A-Za-z_][\w:.&*()\[\]]*\((.*)\);\s*$", lines[k]) and not re.match(r"^\s*(let|return|debug_assert|assert|eprintln|println|panic|unreachable)\b", lines[k]) \
                    and "!" not in lines[k].split("(")[0]:
                if seen < c.get("nth", 0):
                    seen += 1
                    continue
                lines[k] = re.sub(r"^(\s+)\S.*$", r"\1();", lines[k])
                open(path, "w").write("\n".join(lines))
                c["mutated_line"] = k + 1
                return True
        return False
    # find the line that opens the body: first line from the signature on that ends with `{`
    for k in range(i, min(i + 25, len(lines))):
        if lines[k].rstrip().endswith("{") and not lines[k].lstrip().startswith("//"):
            guard = "" if c["file"].startswith("tracing-appender") else '#[cfg(feature = "std")] '
            lines.insert(k + 1, "        %sif std::thread::panicking() { return; }" % guard)
            open(path, "w").write("\n".join(lines))
            return True
    return False


def worker(args):
    wt, cs = args
    res = []
    for c in cs:
        subprocess.run(["git", "-C", wt, "checkout", "-q", "--", "."], check=True)
        if not mutate(wt, c):
            res.append(dict(c, outcome="skipped"))
            continue
        env = dict(os.environ, VERIF_REPO=wt)
        caught = []
        build = False
        for p in c["props"]:
            r = subprocess.run([os.path.join(VERIF, "bin/check"), p], cwd=VERIF, env=env, capture_output=True, text=True)
            if r.returncode != 0:
                if "violation build:" in r.stdout:
                    build = True
                else:
                    caught.append(p)
        res.append(dict(c, outcome="build" if build and not caught else ("caught" if caught else "MISSED"), caught=caught))
        print("%-7s %s %s" % (res[-1]["outcome"], c["fn"][-90:], ",".join(caught)), flush=True)
    return res


def main():
    global OP
    args = [a for a in sys.argv[1:] if a != "--no-triage"]
    jobs = 4
    if args[:1] == ["--op"]:
        OP = args[1]; args = args[2:]
    if args[:1] == ["-j"]:
        jobs = int(args[1]); args = args[2:]
    props = args or ["C%02d" % i for i in range(1, 20)]
    cs = candidates(props)
    print("%d candidate functions" % len(cs))
    wts = []
    for j in range(jobs):
        wt = tempfile.mkdtemp(prefix="vsv-", dir="/tmp"); os.rmdir(wt)
        subprocess.run(["git", "-C", "/repo", "worktree", "add", "--detach", "-q", wt, "HEAD"], check=True)
        if os.path.exists("/repo/Cargo.lock") and not os.path.exists(os.path.join(wt, "Cargo.lock")):
            shutil.copy("/repo/Cargo.lock", os.path.join(wt, "Cargo.lock"))
        wts.append(wt)
    try:
        with ThreadPoolExecutor(jobs) as ex:
            parts = list(ex.map(worker, [(wts[j], cs[j::jobs]) for j in range(jobs)]))
    finally:
        for wt in wts:
            subprocess.run(["git", "-C", "/repo", "worktree", "remove", "--force", wt])
            shutil.rmtree(wt, ignore_errors=True)
    res = [r for p in parts for r in p]
    # triage: a missed mutant the crate's own tests catch is not a "realistic change that passes the existing tests"
    missed0 = [r for r in res if r["outcome"] == "MISSED"]
    if missed0 and "--no-triage" not in sys.argv:
        wt = tempfile.mkdtemp(prefix="vsv-", dir="/tmp"); os.rmdir(wt)
        subprocess.run(["git", "-C", "/repo", "worktree", "add", "--detach", "-q", wt, "HEAD"], check=True)
        shutil.copy("/repo/Cargo.lock", os.path.join(wt, "Cargo.lock"))
        tgt = tempfile.mkdtemp(prefix="vsv-target-", dir="/tmp")
        try:
            for c in missed0:
                subprocess.run(["git", "-C", wt, "checkout", "-q", "--", "."], check=True)
                mutate(wt, c)
                crate = c["file"].split("/")[0]
                feat = ["--features", "env-filter,json"] if crate == "tracing-subscriber" else []
                env = dict(os.environ, CARGO_NET_OFFLINE="true", CARGO_TARGET_DIR=tgt)
                pr = subprocess.run(["cargo", "test", "--offline", "-p", crate, "--no-fail-fast", "--lib", "--tests"] + feat, cwd=wt, env=env, capture_output=True, text=True)
                failed = [l for l in pr.stdout.split("\n") if l.startswith("test ") and "FAILED" in l]
                build_err = "error: could not compile" in pr.stderr or "error[" in pr.stderr
                c["tests_failed"] = len(failed) if not build_err else -1
                if failed or build_err:
                    c["outcome"] = "missed-but-tests-fail"
                print("triage %s:%s -> %s" % (c["file"], c.get("mutated_line"), "suite fails (%d)" % len(failed) if failed else ("does not build" if build_err else "SURVIVES the suite")), flush=True)
        finally:
            subprocess.run(["git", "-C", "/repo", "worktree", "remove", "--force", wt])
            shutil.rmtree(wt, ignore_errors=True)
            shutil.rmtree(tgt, ignore_errors=True)
    os.makedirs(os.path.join(VERIF, ".cache"), exist_ok=True)
    json.dump(res, open(os.path.join(VERIF, ".cache", "survey-%s.json" % OP), "w"), indent=1)
    missed = [r for r in res if r["outcome"] == "MISSED"]
    print("survey: %d mutants, %d caught, %d build failures, %d MISSED" % (len(res), sum(r["outcome"] == "caught" for r in res),
                                                                           sum(r["outcome"] == "build" for r in res), len(missed)))
    for r in missed:
        print("  MISSED %s (%s:%d) analysed by %s" % (r["fn"], r["file"], r["line"], ",".join(r["props"])))


if __name__ == "__main__":
    main()
