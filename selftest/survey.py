#!/usr/bin/env python3
"""Mutation *survey* (not part of any registered check): for every function a property's check reports as analysed and
that returns `()`, make its whole effect conditional -- `if std::thread::panicking() { return; }` as the first statement
-- in a scratch worktree, run the checks of the properties that analyse the function, and list the mutants nobody
notices. An undetected mutant is a lead, not a verdict: some functions are legitimately free to do nothing (pure
logging, caches); the leads are triaged by hand and the confirmed ones become rules + entries in mutations.py.

usage: selftest/survey.py [-j N] [property ...]      writes .cache/survey.json
"""
import json, os, re, shutil, subprocess, sys, tempfile
from concurrent.futures import ThreadPoolExecutor
VERIF = os.path.dirname(os.path.dirname(os.path.abspath(__file__)))
sys.path.insert(0, VERIF)
from rulekit import Facts   # noqa: E402


def candidates(props):
    F = Facts("default")
    by_fn = {}
    for p in props:
        ev = json.load(open(os.path.join(VERIF, "evidence", p + ".json")))
        for fn in ev["coverage"].get("functions_analysed", []):
            by_fn.setdefault(fn, set()).add(p)
    out = []
    for fn, ps in sorted(by_fn.items()):
        b = F.body(fn)
        if b is None or "{closure" in fn or not b.raw.get("locals") or (OP == "panic-return" and str(b.raw["locals"][0]) != "()"):
            continue
        sp = b.raw["sp"]                      # {"f": file, "l": line, "c": col}
        if b.raw.get("expanded") or not sp.get("f", "").startswith("tracing") or "/src/" not in sp["f"]:
            continue
        m = re.match(r".*:(\d+)-(\d+)$", str(b.raw.get("span", "")))
        out.append(dict(fn=fn, file=sp["f"], line=int(sp["l"]), end=int(m.group(2)) if m else int(sp["l"]) + 60, props=sorted(ps)))
    return out


OP = "panic-return"


def mutate(wt, c):
    path = os.path.join(wt, c["file"])
    lines = open(path).read().split("\n")
    i = c["line"] - 1
    if OP == "negate-if":
        # negate the first plain `if <cond> {` of the function (not `if let`, not inside a macro invocation line)
        end = c.get("end", i + 60)
        for k in range(i, min(end, len(lines))):
            m = re.match(r"^(\s*)(\}\s*else\s+)?if (?!let\b)(.+) \{\s*$", lines[k])
            if m and "cfg!" not in lines[k]:
                lines[k] = "%s%sif !(%s) {" % (m.group(1), m.group(2) or "", m.group(3))
                open(path, "w").write("\n".join(lines))
                c["mutated_line"] = k + 1
                return True
        return False
    # find the line that opens the body: first line from the signature on that ends with `{`
    for k in range(i, min(i + 25, len(lines))):
        if lines[k].rstrip().endswith("{") and not lines[k].lstrip().startswith("//"):
            guard = "" if c["file"].startswith("tracing-appender") else '#[cfg(feature = "std")] '
            lines.insert(k + 1, "        %sif std::thread::panicking() { return; }" % guard)
            open(path, "w").write("\n".join(lines))
            return True
    return False


def worker(args):
    wt, cs = args
    res = []
    for c in cs:
        subprocess.run(["git", "-C", wt, "checkout", "-q", "--", "."], check=True)
        if not mutate(wt, c):
            res.append(dict(c, outcome="skipped"))
            continue
        env = dict(os.environ, VERIF_REPO=wt)
        caught = []
        build = False
        for p in c["props"]:
            r = subprocess.run([os.path.join(VERIF, "bin/check"), p], cwd=VERIF, env=env, capture_output=True, text=True)
            if r.returncode != 0:
                if "violation build:" in r.stdout:
                    build = True
                else:
                    caught.append(p)
        res.append(dict(c, outcome="build" if build and not caught else ("caught" if caught else "MISSED"), caught=caught))
        print("%-7s %s %s" % (res[-1]["outcome"], c["fn"][-90:], ",".join(caught)), flush=True)
    return res


def main():
    global OP
    args = sys.argv[1:]
    jobs = 4
    if args[:1] == ["--op"]:
        OP = args[1]; args = args[2:]
    if args[:1] == ["-j"]:
        jobs = int(args[1]); args = args[2:]
    props = args or ["C%02d" % i for i in range(1, 20)]
    cs = candidates(props)
    print("%d candidate functions" % len(cs))
    wts = []
    for j in range(jobs):
        wt = tempfile.mkdtemp(prefix="vsv-", dir="/tmp"); os.rmdir(wt)
        subprocess.run(["git", "-C", "/repo", "worktree", "add", "--detach", "-q", wt, "HEAD"], check=True)
        if os.path.exists("/repo/Cargo.lock") and not os.path.exists(os.path.join(wt, "Cargo.lock")):
            shutil.copy("/repo/Cargo.lock", os.path.join(wt, "Cargo.lock"))
        wts.append(wt)
    try:
        with ThreadPoolExecutor(jobs) as ex:
            parts = list(ex.map(worker, [(wts[j], cs[j::jobs]) for j in range(jobs)]))
    finally:
        for wt in wts:
            subprocess.run(["git", "-C", "/repo", "worktree", "remove", "--force", wt])
            shutil.rmtree(wt, ignore_errors=True)
    res = [r for p in parts for r in p]
    os.makedirs(os.path.join(VERIF, ".cache"), exist_ok=True)
    json.dump(res, open(os.path.join(VERIF, ".cache", "survey-%s.json" % OP), "w"), indent=1)
    missed = [r for r in res if r["outcome"] == "MISSED"]
    print("survey: %d mutants, %d caught, %d build failures, %d MISSED" % (len(res), sum(r["outcome"] == "caught" for r in res),
                                                                           sum(r["outcome"] == "build" for r in res), len(missed)))
    for r in missed:
        print("  MISSED %s (%s:%d) analysed by %s" % (r["fn"], r["file"], r["line"], ",".join(r["props"])))


if __name__ == "__main__":
    main()
